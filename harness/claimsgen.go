package main

import (
	"github.com/fxamacker/cbor/v2"
	"errors"
	"fmt"
	"time"

	"github.com/veraison/eat"
	psatoken "github.com/veraison/psatoken"
)

// ClaimsDesc is a concrete, serialisable description of a claims-set in any
// state (valid or not). build() turns it into a live object through exported
// struct fields and the container's public codec, i.e. without the setters, so
// that invalid states are reachable and the setters stay under test elsewhere.
type ClaimsDesc struct {
	Prof      string    `json:"prof"` // p1 | p2 | xp1 | xp2
	ProfClaim *string   `json:"profile,omitempty"`
	ClientID  *int32    `json:"cid,omitempty"`
	Lifecycle *uint16   `json:"lc,omitempty"`
	ImplID    *HexBytes `json:"impl,omitempty"`
	BootSeed  *HexBytes `json:"seed,omitempty"`
	CertRef   *string   `json:"cert,omitempty"`
	Sw        []SwDesc  `json:"sw,omitempty"`
	SwNil     bool      `json:"swnil,omitempty"`
	NoMeas    *uint     `json:"nomeas,omitempty"`
	Nonce     *HexBytes `json:"nonce,omitempty"`
	Nonce2    *HexBytes `json:"nonce2,omitempty"`
	Nonce3    *HexBytes `json:"nonce3,omitempty"`
	InstID    *HexBytes `json:"inst,omitempty"`
	VSI       *string   `json:"vsi,omitempty"`
	Extra     *int64    `json:"extra,omitempty"`
	Wide      []int     `json:"wide,omitempty"`  // xw: which of the 20 extra claims are present
	Stamp     *int64    `json:"stamp,omitempty"` // xw: a time claim (seconds), encoded with a CBOR tag
	XSw       bool      `json:"xsw,omitempty"`   // components are of the sim type whose encoder can fail
	K         *KDesc    `json:"k,omitempty"`     // xk: the additional claims of plain kinds
	// Defects lists what was deliberately broken (informational).
	Defects []string `json:"defects,omitempty"`
}

type SwDesc struct {
	// Nil: the list entry is a typed nil (*SwComponent)(nil) / a CBOR null
	Nil     bool      `json:"nil,omitempty"`
	MType   *string   `json:"mt,omitempty"`
	MVal    *HexBytes `json:"mv,omitempty"`
	Version *string   `json:"ver,omitempty"`
	Signer  *HexBytes `json:"sid,omitempty"`
	MDesc   *string   `json:"md,omitempty"`
	XTra    *string   `json:"xtra,omitempty"` // xc: the field the profile's own component type adds
}

// KDesc: the xk family's additional claims.
type KDesc struct {
	Name      string    `json:"name,omitempty"`
	Count     uint32    `json:"count,omitempty"`
	Flag      bool      `json:"flag,omitempty"`
	Blob      *HexBytes `json:"blob,omitempty"` // nil: absent; empty: present and empty
	List      []string  `json:"list,omitempty"`
	ListEmpty bool      `json:"list_empty,omitempty"` // present and empty
	Inner     bool      `json:"inner,omitempty"`
	InnerN    *int64    `json:"inner_n,omitempty"`
	InnerS    string    `json:"inner_s,omitempty"`
	Must      int64     `json:"must"`
	Epoch     uint64    `json:"epoch,omitempty"`
	Raw       *HexBytes `json:"raw,omitempty"` // one well-formed CBOR item
	Feat      []string  `json:"feat,omitempty"` // a claim WITHOUT omitempty: nil is written as null
}

func (k *KDesc) apply(x *XKClaims) {
	x.Name, x.Count, x.Flag, x.Must = k.Name, k.Count, k.Flag, k.Must
	x.KEpoch = KEpoch(k.Epoch)
	if k.Raw != nil {
		x.Raw = append(cbor.RawMessage{}, (*k.Raw)...)
	}
	if len(k.Feat) > 0 {
		x.Feat = append([]string{}, k.Feat...)
	}
	if k.Blob != nil {
		x.Blob = append([]byte{}, (*k.Blob)...)
	}
	if len(k.List) > 0 {
		x.List = append([]string{}, k.List...)
	} else if k.ListEmpty {
		x.List = []string{}
	}
	if k.Inner {
		x.Inner = &XKInner{S: k.InnerS}
		if k.InnerN != nil {
			v := *k.InnerN
			x.Inner.N = &v
		}
	}
}

func genK(r *Rng) *KDesc {
	k := &KDesc{}
	if r.Chance(1, 2) {
		k.Name = textPool[r.Intn(len(textPool))]
	}
	if r.Chance(1, 2) {
		k.Count = uint32(r.Intn(1 << 20))
	}
	k.Flag = r.Chance(1, 2)
	switch r.Intn(4) {
	case 0:
		k.Blob = hp(r.Bytes(r.Range(1, 40)))
	case 1:
		k.Blob = hp([]byte{})
	}
	switch r.Intn(4) {
	case 0:
		for n := r.Range(1, 4); n > 0; n-- {
			k.List = append(k.List, textPool[r.Intn(len(textPool))])
		}
	case 1:
		k.ListEmpty = true
	}
	if r.Chance(1, 2) {
		k.Inner = true
		if r.Chance(1, 2) {
			v := int64(r.Intn(1<<20)) - 1000
			k.InnerN = &v
		}
		if r.Chance(1, 2) {
			k.InnerS = textPool[r.Intn(len(textPool))]
		}
	}
	if r.Chance(2, 3) {
		k.Must = int64(r.Intn(1<<30)) - 1<<20
	}
	if r.Chance(1, 2) {
		k.Epoch = uint64(1 + r.Intn(1<<30))
	}
	if r.Chance(1, 2) {
		k.Feat = []string{textPool[r.Intn(len(textPool))]}
	}
	if r.Chance(1, 2) {
		items := [][]byte{{0x01}, {0x43, 0xaa, 0xbb, 0xcc}, {0x82, 0x01, 0x62, 'h', 'i'}, {0xa1, 0x01, 0x02}, {0x19, 0x12, 0x34}, {0x65, 'h', 'e', 'l', 'l', 'o'}}
		k.Raw = hp(items[r.Intn(len(items))])
	}
	return k
}

const (
	// xuName is the profile of a derived claims type that is NEVER registered
	// (a party that only encodes and signs, and never decodes)
	xuName  = "http://sim.example/psa/unregistered"
	xp2Name = "http://sim.example/psa/xp2"
	xp1Name = "SIM_XP1_PROFILE"
)

func profileNameOf(prof string) string {
	switch prof {
	case "p1":
		return psatoken.Profile1Name
	case "p2":
		return psatoken.Profile2Name
	case "xp1":
		return xp1Name
	case "xp2":
		return xp2Name
	case "xw":
		return xwName
	case "xc":
		return xcName
	case "xk":
		return xkName
	case "xu":
		return xuName
	}
	return ""
}

func sp(s string) *string { return &s }
func hp(b []byte) *HexBytes {
	h := HexBytes(b)
	return &h
}

var hashLens = []int{32, 48, 64}

var textPool = []string{"BL", "PRoT", "ARoT", "M1", "", "1.2.3", "0.1.4", "v3.4.2-rc1",
	"é中文", "quote\"back\\slash", "a<b>&c", " lead", "trail ", " ", "\t", "tab\tnl\n", "sha-256", "a very long description of a measured component, for good measure"}

func genSw(r *Rng) SwDesc {
	d := SwDesc{
		MVal:   hp(r.Bytes(hashLens[r.Intn(3)])),
		Signer: hp(r.Bytes(hashLens[r.Intn(3)])),
	}
	if r.Chance(1, 2) {
		d.MType = sp(textPool[r.Intn(len(textPool))])
	}
	if r.Chance(1, 2) {
		d.Version = sp(textPool[r.Intn(len(textPool))])
	}
	if r.Chance(1, 3) {
		d.MDesc = sp(textPool[r.Intn(len(textPool))])
	}
	return d
}

func genLifecycle(r *Rng) uint16 {
	base := uint16(r.Intn(7)) << 12
	switch r.Intn(4) {
	case 0:
		return base
	case 1:
		return base | 0xff
	default:
		return base | uint16(r.Intn(256))
	}
}

var digits = "0123456789"

func genDigits(r *Rng, n int) string {
	b := make([]byte, n)
	for i := range b {
		b[i] = digits[r.Intn(10)]
	}
	return string(b)
}

// genValidClaims draws a valid claims-set of the given profile family.
func genValidClaims(r *Rng, prof string) ClaimsDesc {
	d := ClaimsDesc{Prof: prof}
	p1 := prof == "p1" || prof == "xp1"
	cid := int32(r.U64())
	switch r.Intn(6) {
	case 0:
		cid = -1
	case 1:
		cid = 2147483647
	case 2:
		cid = -2147483648
	}
	d.ClientID = &cid
	lc := genLifecycle(r)
	d.Lifecycle = &lc
	d.ImplID = hp(r.Bytes(32))
	d.Nonce = hp(r.Bytes(hashLens[r.Intn(3)]))
	inst := r.Bytes(33)
	inst[0] = 0x01
	d.InstID = hp(inst)
	if r.Chance(1, 2) {
		d.VSI = sp([]string{"https://veraison.example/v1/challenge-response", "x", "é://v", "https://v.example/?a=1&b=<2>", " https://v.example/padded\n", " "}[r.Intn(6)])
	}
	if p1 {
		d.BootSeed = hp(r.Bytes(32))
		if r.Chance(1, 2) {
			if r.Chance(1, 2) {
				d.CertRef = sp(genDigits(r, 13))
			} else {
				d.CertRef = sp(genDigits(r, 13) + "-" + genDigits(r, 5))
			}
		}
		if r.Chance(2, 3) || prof == "xp1" {
			d.ProfClaim = sp(profileNameOf(prof))
		}
		if r.Chance(1, 4) {
			one := uint(1)
			if r.Chance(1, 4) {
				// the flag is asserted by presence; senders have been seen to use other values
				one = []uint{0, 2, 255, 1 << 22, 1 << 31, 1<<63 - 1}[r.Intn(6)]
			}
			d.NoMeas = &one
			d.SwNil = r.Chance(1, 2)
		} else {
			n := r.Range(1, 4)
			if r.Chance(1, 25) {
				n = r.Range(15, 40) // a long component list
			}
			for i := 0; i < n; i++ {
				d.Sw = append(d.Sw, genSw(r))
			}
		}
	} else {
		d.ProfClaim = sp(profileNameOf(prof))
		if r.Chance(1, 2) {
			d.BootSeed = hp(r.Bytes([]int{8, 9, 16, 31, 32}[r.Intn(5)]))
		}
		if r.Chance(1, 2) {
			d.CertRef = sp(genDigits(r, 13) + "-" + genDigits(r, 5))
		}
		n := r.Range(1, 4)
		if r.Chance(1, 25) {
			n = r.Range(15, 40) // a long component list
		}
		for i := 0; i < n; i++ {
			d.Sw = append(d.Sw, genSw(r))
		}
	}
	if prof == "xp1" || prof == "xp2" || prof == "xu" {
		if r.Chance(1, 2) {
			x := int64(r.Intn(1 << 30))
			if r.Chance(1, 4) {
				x = 0 // present, and the zero value of its type
			}
			d.Extra = &x
		}
	}
	if prof == "xw" {
		// enough extra claims for the total to land around the 23/24 header boundary
		k := r.Range(10, 20)
		perm := r.Perm(20)
		d.Wide = append([]int{}, perm[:k]...)
		for _, alt := range []int{280, 281} { // the two claims whose tag options are spelt differently
			if r.Chance(1, 2) {
				d.Wide = append(d.Wide, alt)
			}
		}
		if r.Chance(1, 6) {
			// all twenty plus most of the 260 bulk claims: the total crosses
			// 255/256 members (two-byte map head)
			d.Wide = d.Wide[:0]
			for i := 0; i < 20; i++ {
				d.Wide = append(d.Wide, i)
			}
			bp := r.Perm(260)
			for _, i := range bp[:r.Range(212, 260)] {
				d.Wide = append(d.Wide, 20+i)
			}
		}
		if r.Chance(1, 2) {
			t := int64(1600000000 + r.Intn(1<<27))
			d.Stamp = &t
		}
	}
	if prof != "p1" && prof != "xp1" && prof != "xc" && r.Chance(1, 6) {
		d.XSw = true
	}
	if prof == "xk" {
		d.K = genK(r)
	}
	if prof == "xc" {
		for i := range d.Sw {
			if r.Chance(2, 3) {
				d.Sw[i].XTra = sp(textPool[r.Intn(len(textPool))])
			}
		}
	}
	return d
}

var badLens = []int{0, 1, 7, 8, 16, 31, 33, 47, 49, 63, 65, 80}

func badLen(r *Rng, valid ...int) int {
	for {
		l := badLens[r.Intn(len(badLens))]
		ok := true
		for _, v := range valid {
			if l == v {
				ok = false
			}
		}
		if ok {
			return l
		}
	}
}

// applyDefect makes a valid description invalid in one named way. Returns
// false when the defect does not apply to this profile/state.
func applyDefect(r *Rng, d *ClaimsDesc, defect string) bool {
	p1 := d.Prof == "p1" || d.Prof == "xp1"
	switch defect {
	case "no-clientid":
		d.ClientID = nil
	case "no-lifecycle":
		d.Lifecycle = nil
	case "no-implid":
		d.ImplID = nil
	case "no-nonce":
		d.Nonce = nil
	case "no-instid":
		d.InstID = nil
	case "no-bootseed":
		if !p1 {
			return false
		}
		d.BootSeed = nil
	case "no-profile":
		if p1 {
			return false
		}
		d.ProfClaim = nil
	case "bad-lifecycle":
		v := []uint16{0x0100, 0x0fff, 0x1100, 0x6100, 0x7000, 0xffff, 0x60ff + 1}[r.Intn(7)]
		d.Lifecycle = &v
	case "bad-implid":
		d.ImplID = hp(r.Bytes(badLen(r, 32)))
	case "bad-bootseed":
		if p1 {
			d.BootSeed = hp(r.Bytes(badLen(r, 32)))
		} else {
			d.BootSeed = hp(r.Bytes([]int{0, 1, 7, 33, 48, 64}[r.Intn(6)]))
		}
	case "bad-nonce":
		if p1 {
			d.Nonce = hp(r.Bytes(badLen(r, 32, 48, 64)))
		} else {
			// eat.Nonce only carries 8..64 bytes
			d.Nonce = hp(r.Bytes([]int{8, 16, 31, 33, 47, 49, 63}[r.Intn(7)]))
		}
	case "two-nonces":
		if p1 {
			return false
		}
		d.Nonce2 = hp(r.Bytes(32))
		if d.Nonce != nil && r.Chance(1, 2) {
			// the same challenge repeated, then (sometimes) a different one: [A, A] / [A, A, B]
			d.Nonce2 = hp(append([]byte{}, (*d.Nonce)...))
			if r.Chance(2, 3) {
				d.Nonce3 = hp(r.Bytes(32))
			}
		}
	case "bad-instid-len":
		b := r.Bytes(badLen(r, 33))
		if len(b) > 0 {
			b[0] = 1
		}
		d.InstID = hp(b)
	case "bad-instid-type":
		b := r.Bytes(33)
		b[0] = []byte{0, 2, 3, 0xff}[r.Intn(4)]
		d.InstID = hp(b)
	case "bad-certref":
		opts := []string{"", "123456789012", "12345678901234", "1234567890123-1234", "1234567890123-123456",
			"123456789012a", "x1234567890123", "1234567890123x", "1234567890123_12345", " 1234567890123"}
		if !p1 {
			opts = append(opts, "1234567890123")
		}
		d.CertRef = sp(opts[r.Intn(len(opts))])
	case "empty-vsi":
		d.VSI = sp("")
	case "no-sw":
		d.Sw = nil
		d.NoMeas = nil
		d.SwNil = r.Chance(1, 2)
	case "sw-and-nomeas":
		if !p1 {
			return false
		}
		one := uint(1)
		d.NoMeas = &one
		if len(d.Sw) == 0 {
			d.Sw = []SwDesc{genSw(r)}
		}
		d.SwNil = false
	case "sw-no-mval":
		if len(d.Sw) == 0 {
			return false
		}
		d.Sw[r.Intn(len(d.Sw))].MVal = nil
	case "sw-no-signer":
		if len(d.Sw) == 0 {
			return false
		}
		d.Sw[r.Intn(len(d.Sw))].Signer = nil
	case "sw-bad-mval":
		if len(d.Sw) == 0 {
			return false
		}
		d.Sw[r.Intn(len(d.Sw))].MVal = hp(r.Bytes(badLen(r, 32, 48, 64)))
	case "sw-bad-signer":
		if len(d.Sw) == 0 {
			return false
		}
		d.Sw[r.Intn(len(d.Sw))].Signer = hp(r.Bytes(badLen(r, 32, 48, 64)))
	case "sw-several-bad":
		// two or three malformed entries, in different ways, in one list
		for len(d.Sw) < 3 {
			d.Sw = append(d.Sw, genSw(r))
		}
		d.NoMeas = nil
		p := r.Perm(len(d.Sw))
		d.Sw[p[0]].MVal = nil
		d.Sw[p[1]].Signer = hp(r.Bytes(5))
		if r.Chance(1, 2) {
			d.Sw[p[2]].MVal = hp(r.Bytes(7))
		}
	case "bad-extra":
		// valid under the base profile's rules, invalid under the extension's own Validate()
		if d.Prof != "xp1" && d.Prof != "xp2" {
			return false
		}
		x := int64(-1 - r.Intn(1000))
		d.Extra = &x
	case "wrong-profile":
		if p1 {
			d.ProfClaim = sp([]string{"PSA_IOT_PROFILE_2", psatoken.Profile2Name, ""}[r.Intn(3)])
		} else {
			d.ProfClaim = sp([]string{"http://arm.com/psa/3.0.0", "http://example.com/other"}[r.Intn(2)])
		}
	default:
		return false
	}
	d.Defects = append(d.Defects, defect)
	return true
}

var allDefects = []string{"no-clientid", "no-lifecycle", "no-implid", "no-nonce", "no-instid", "no-bootseed",
	"no-profile", "bad-lifecycle", "bad-implid", "bad-bootseed", "bad-nonce", "two-nonces", "bad-instid-len",
	"bad-instid-type", "bad-certref", "empty-vsi", "no-sw", "sw-and-nomeas", "sw-no-mval", "sw-no-signer",
	"sw-bad-mval", "sw-bad-signer", "wrong-profile", "bad-extra", "bad-extra", "sw-several-bad"}

func genInvalidClaims(r *Rng, prof string) ClaimsDesc {
	d := genValidClaims(r, prof)
	n := 1
	if r.Chance(1, 4) {
		n = 2
	}
	for len(d.Defects) < n {
		applyDefect(r, &d, allDefects[r.Intn(len(allDefects))])
	}
	return d
}

// ---- building live objects

func encodeSwList(sw []SwDesc) []byte {
	out := encodeHead(4, uint64(len(sw)))
	for _, c := range sw {
		if c.Nil {
			out = append(out, 0xf6)
			continue
		}
		n := 0
		var body []byte
		add := func(key uint64, val []byte) {
			body = append(body, encodeHead(0, key)...)
			body = append(body, val...)
			n++
		}
		tstr := func(s string) []byte { return append(encodeHead(3, uint64(len(s))), s...) }
		if c.MType != nil {
			add(1, tstr(*c.MType))
		}
		if c.MVal != nil {
			add(2, cborBstr(*c.MVal))
		}
		if c.Version != nil {
			add(4, tstr(*c.Version))
		}
		if c.Signer != nil {
			add(5, cborBstr(*c.Signer))
		}
		if c.MDesc != nil {
			add(6, tstr(*c.MDesc))
		}
		if c.XTra != nil {
			add(7, tstr(*c.XTra))
		}
		out = append(out, encodeHead(5, uint64(n))...)
		out = append(out, body...)
	}
	return out
}

func buildSwComponent(c SwDesc) *psatoken.SwComponent {
	sc := &psatoken.SwComponent{}
	if c.MType != nil {
		v := *c.MType
		sc.MeasurementType = &v
	}
	if c.MVal != nil {
		v := append([]byte{}, *c.MVal...)
		sc.MeasurementValue = &v
	}
	if c.Version != nil {
		v := *c.Version
		sc.Version = &v
	}
	if c.Signer != nil {
		v := append([]byte{}, *c.Signer...)
		sc.SignerID = &v
	}
	if c.MDesc != nil {
		v := *c.MDesc
		sc.MeasurementDesc = &v
	}
	return sc
}

// swToXIface: the same list as values of the xc profile's own component type.
func swToXIface(sw []SwDesc) []psatoken.ISwComponent {
	out := make([]psatoken.ISwComponent, len(sw))
	for i, c := range sw {
		if c.Nil {
			out[i] = (*XSwExt)(nil)
			continue
		}
		x := &XSwExt{SwComponent: *buildSwComponent(c)}
		if c.XTra != nil {
			v := *c.XTra
			x.Extra = &v
		}
		out[i] = x
	}
	return out
}

func swToIface(sw []SwDesc) []psatoken.ISwComponent {
	out := make([]psatoken.ISwComponent, len(sw))
	for i, c := range sw {
		if c.Nil {
			if c.Version != nil {
				out[i] = nil // the interface itself is nil
			} else {
				out[i] = (*psatoken.SwComponent)(nil)
			}
			continue
		}
		out[i] = buildSwComponent(c)
	}
	return out
}

func buildContainer(d *ClaimsDesc) (psatoken.ISwComponents, error) {
	if d.SwNil && len(d.Sw) == 0 {
		return nil, nil
	}
	if d.XSw && len(d.Sw) > 0 {
		xc := &psatoken.SwComponents[*XSwComponent]{}
		if err := xc.UnmarshalCBOR(encodeSwList(d.Sw)); err != nil {
			return nil, fmt.Errorf("container decode: %w", err)
		}
		return xc, nil
	}
	if d.Prof == "xc" {
		xc := &psatoken.SwComponents[*XSwExt]{}
		if len(d.Sw) == 0 {
			return xc, nil
		}
		l := make([]psatoken.ISwComponent, 0, len(d.Sw))
		for _, c := range d.Sw {
			if c.Nil {
				l = nil
				break
			}
			x := &XSwExt{SwComponent: *buildSwComponent(c)}
			if c.XTra != nil {
				v := *c.XTra
				x.Extra = &v
			}
			l = append(l, x)
		}
		if l != nil {
			if err := xc.Add(l...); err == nil {
				return xc, nil
			}
		}
		xc = &psatoken.SwComponents[*XSwExt]{}
		if err := xc.UnmarshalCBOR(encodeSwList(d.Sw)); err != nil {
			return nil, fmt.Errorf("container decode: %w", err)
		}
		return xc, nil
	}
	cont := &psatoken.SwComponents[*psatoken.SwComponent]{}
	if len(d.Sw) == 0 {
		return cont, nil
	}
	// valid components go in through the container's own Add (no codec involved);
	// only a list holding an invalid component needs the codec to get inside
	if err := cont.Add(swToIface(d.Sw)...); err == nil {
		return cont, nil
	}
	cont = &psatoken.SwComponents[*psatoken.SwComponent]{}
	// the public codec is the only way to place an invalid component inside
	if err := cont.UnmarshalCBOR(encodeSwList(d.Sw)); err != nil {
		return nil, fmt.Errorf("container decode: %w", err)
	}
	return cont, nil
}

func cloneBytes(h *HexBytes) *[]byte {
	if h == nil {
		return nil
	}
	b := append([]byte{}, (*h)...)
	return &b
}

var errUnbuildable = errors.New("description cannot be materialised")

func buildP1(d *ClaimsDesc, canonical string) (*psatoken.P1Claims, error) {
	cont, err := buildContainer(d)
	if err != nil {
		return nil, err
	}
	c := &psatoken.P1Claims{CanonicalProfile: canonical}
	if d.ProfClaim != nil {
		v := *d.ProfClaim
		c.Profile = &v
	}
	if d.ClientID != nil {
		v := *d.ClientID
		c.ClientID = &v
	}
	if d.Lifecycle != nil {
		v := *d.Lifecycle
		c.SecurityLifeCycle = &v
	}
	c.ImplID = cloneBytes(d.ImplID)
	c.BootSeed = cloneBytes(d.BootSeed)
	if d.CertRef != nil {
		v := *d.CertRef
		c.CertificationReference = &v
	}
	if cont != nil {
		c.SwComponents = cont
	}
	if d.NoMeas != nil {
		v := *d.NoMeas
		c.NoSwMeasurements = &v
	}
	c.Nonce = cloneBytes(d.Nonce)
	c.InstID = cloneBytes(d.InstID)
	if d.VSI != nil {
		v := *d.VSI
		c.VSI = &v
	}
	return c, nil
}

func buildP2(d *ClaimsDesc, canonical string) (*psatoken.P2Claims, error) {
	cont, err := buildContainer(d)
	if err != nil {
		return nil, err
	}
	c := &psatoken.P2Claims{CanonicalProfile: canonical}
	if d.ProfClaim != nil {
		p := eat.Profile{}
		if err := p.Set(*d.ProfClaim); err != nil {
			return nil, errUnbuildable
		}
		c.Profile = &p
	}
	if d.ClientID != nil {
		v := *d.ClientID
		c.ClientID = &v
	}
	if d.Lifecycle != nil {
		v := *d.Lifecycle
		c.SecurityLifeCycle = &v
	}
	c.ImplID = cloneBytes(d.ImplID)
	c.BootSeed = cloneBytes(d.BootSeed)
	if d.CertRef != nil {
		v := *d.CertRef
		c.CertificationReference = &v
	}
	if cont != nil {
		c.SwComponents = cont
	}
	if d.Nonce != nil {
		n := eat.Nonce{}
		if err := n.Add(append([]byte{}, (*d.Nonce)...)); err != nil {
			return nil, errUnbuildable
		}
		if d.Nonce2 != nil {
			if err := n.Add(append([]byte{}, (*d.Nonce2)...)); err != nil {
				return nil, errUnbuildable
			}
		}
		if d.Nonce3 != nil {
			if err := n.Add(append([]byte{}, (*d.Nonce3)...)); err != nil {
				return nil, errUnbuildable
			}
		}
		c.Nonce = &n
	}
	if d.InstID != nil {
		u := eat.UEID(append([]byte{}, (*d.InstID)...))
		c.InstID = &u
	}
	if d.VSI != nil {
		v := *d.VSI
		c.VSI = &v
	}
	return c, nil
}

// build materialises a description. A panic of library code underneath (the
// container codec) makes the description unbuildable, it does not take the
// simulator down.
func (d *ClaimsDesc) build() (c psatoken.IClaims, err error) {
	defer func() {
		if r := recover(); r != nil {
			c, err = nil, fmt.Errorf("panic while building: %v", r)
		}
	}()
	return d.buildRaw()
}

func (d *ClaimsDesc) buildRaw() (psatoken.IClaims, error) {
	switch d.Prof {
	case "p1":
		return buildP1(d, psatoken.Profile1Name)
	case "p2":
		return buildP2(d, psatoken.Profile2Name)
	case "xp1":
		b, err := buildP1(d, xp1Name)
		if err != nil {
			return nil, err
		}
		x := &XP1Claims{P1Claims: *b}
		if d.Extra != nil {
			v := *d.Extra
			x.Extra = &v
		}
		return x, nil
	case "xp2":
		b, err := buildP2(d, xp2Name)
		if err != nil {
			return nil, err
		}
		x := &XP2Claims{P2Claims: *b}
		if d.Extra != nil {
			v := *d.Extra
			x.Extra = &v
		}
		return x, nil
	case "xu":
		b, err := buildP2(d, xuName)
		if err != nil {
			return nil, err
		}
		x := &XP2Claims{P2Claims: *b}
		if d.Extra != nil {
			v := *d.Extra
			x.Extra = &v
		}
		return x, nil
	case "xc":
		return buildP2(d, xcName)
	case "xk":
		b, err := buildP2(d, xkName)
		if err != nil {
			return nil, err
		}
		x := &XKClaims{P2Claims: *b}
		if d.K != nil {
			d.K.apply(x)
		}
		return x, nil
	case "xw":
		b, err := buildP2(d, xwName)
		if err != nil {
			return nil, err
		}
		x := &XWClaims{P2Claims: *b}
		if d.Stamp != nil {
			t := time.Unix(*d.Stamp, 0).UTC()
			x.Stamp = &t
		}
		ws := x.wide()
		for _, i := range d.Wide {
			if i >= 0 && i < len(ws) {
				v := wideValue(i)
				*ws[i] = &v
			}
		}
		return x, nil
	}
	return nil, errUnbuildable
}

// buildViaSetters materialises a description through the public constructor
// and setters only (fails where a setter refuses). The profile claim is
// whatever NewClaims puts there.
func (d *ClaimsDesc) buildViaSetters() (out psatoken.IClaims, oerr error) {
	defer func() {
		if r := recover(); r != nil {
			out, oerr = nil, fmt.Errorf("panic while building: %v", r)
		}
	}()
	c, err := psatoken.NewClaims(profileNameOf(d.Prof))
	if err != nil {
		return nil, err
	}
	type step func() error
	var steps []step
	if d.ClientID != nil {
		steps = append(steps, func() error { return c.SetClientID(*d.ClientID) })
	}
	if d.Lifecycle != nil {
		steps = append(steps, func() error { return c.SetSecurityLifeCycle(*d.Lifecycle) })
	}
	if d.ImplID != nil {
		steps = append(steps, func() error { return c.SetImplID(append([]byte{}, (*d.ImplID)...)) })
	}
	if d.BootSeed != nil {
		steps = append(steps, func() error { return c.SetBootSeed(append([]byte{}, (*d.BootSeed)...)) })
	}
	if d.CertRef != nil {
		steps = append(steps, func() error { return c.SetCertificationReference(*d.CertRef) })
	}
	if len(d.Sw) > 0 {
		steps = append(steps, func() error {
			if d.Prof == "xc" {
				return c.SetSoftwareComponents(swToXIface(d.Sw))
			}
			return c.SetSoftwareComponents(swToIface(d.Sw))
		})
	} else if d.NoMeas != nil {
		steps = append(steps, func() error { return c.SetSoftwareComponents(nil) })
	}
	if d.Nonce != nil {
		steps = append(steps, func() error { return c.SetNonce(append([]byte{}, (*d.Nonce)...)) })
	}
	if d.InstID != nil {
		steps = append(steps, func() error { return c.SetInstID(append([]byte{}, (*d.InstID)...)) })
	}
	if d.VSI != nil {
		steps = append(steps, func() error { return c.SetVSI(*d.VSI) })
	}
	for _, s := range steps {
		if err := s(); err != nil {
			return nil, err
		}
	}
	if xk, ok := c.(*XKClaims); ok && d.K != nil {
		d.K.apply(xk)
	}
	if xw, ok := c.(*XWClaims); ok {
		if d.Stamp != nil {
			t := time.Unix(*d.Stamp, 0).UTC()
			xw.Stamp = &t
		}
		ws := xw.wide()
		for _, i := range d.Wide {
			if i >= 0 && i < len(ws) {
				v := wideValue(i)
				*ws[i] = &v
			}
		}
	}
	if d.Extra != nil {
		switch x := c.(type) {
		case *XP1Claims:
			v := *d.Extra
			x.Extra = &v
		case *XP2Claims:
			v := *d.Extra
			x.Extra = &v
		}
	}
	return c, nil
}

// claimsShape summarises which optional claims / sizes a description uses
// (distinctness measure for C03).
func (d *ClaimsDesc) claimsShape() string {
	s := d.Prof
	b := func(x bool) string {
		if x {
			return "1"
		}
		return "0"
	}
	s += b(d.ProfClaim != nil) + b(d.BootSeed != nil) + b(d.CertRef != nil) + b(d.VSI != nil) + b(d.NoMeas != nil) + b(d.Extra != nil)
	if d.Nonce != nil {
		s += fmt.Sprintf("n%d", len(*d.Nonce))
	}
	if d.BootSeed != nil {
		s += fmt.Sprintf("s%d", len(*d.BootSeed))
	}
	if d.CertRef != nil {
		s += fmt.Sprintf("c%d", len(*d.CertRef))
	}
	s += fmt.Sprintf("w%dx%d", len(d.Sw), len(d.Wide))
	for _, c := range d.Sw {
		s += b(c.MType != nil) + b(c.Version != nil) + b(c.MDesc != nil)
		if c.MVal != nil {
			s += fmt.Sprint(len(*c.MVal))
		}
	}
	return s
}

// wideValue is the value of the i-th extra claim of the wide profile: every
// fourth one is present but zero.
func wideValue(i int) int64 {
	if i%4 == 0 {
		return 0
	}
	return int64(1000 + i)
}
