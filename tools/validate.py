#!/usr/bin/env python3
"""Validates MANIFEST.json and every evidence file against the schemas (run with python3-vt)."""
import json, sys, glob, jsonschema
m = json.load(open('/verif/MANIFEST.json'))
jsonschema.validate(m, json.load(open('/root/.vp/MANIFEST.schema.json')))
es = json.load(open('/root/.vp/EVIDENCE.schema.json'))
ids = {l['id'] if False else json.loads(l)['id'] for l in open('/verif/properties.jsonl')}
claimed = {c['property_id'] for c in m['checks']}
na = {c['property_id'] for c in m.get('not_applicable', [])}
assert claimed | na == ids and not (claimed & na), (sorted(ids - claimed - na), sorted(claimed & na))
for c in m['checks']:
    try:
        jsonschema.validate(json.load(open(c['evidence_file'])), es)
    except FileNotFoundError:
        print('missing evidence', c['property_id'])
print('ok: claimed', sorted(claimed))
