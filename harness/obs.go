package main

import (
	"encoding/hex"
	"errors"
	"fmt"
	"reflect"
	"sort"
	"strings"
	"time"

	psatoken "github.com/veraison/psatoken"
)

// Error classes, never error strings.
func ec(err error) string {
	switch {
	case err == nil:
		return "ok"
	case errors.Is(err, errInjectedCodec):
		return "E:injected"
	case errors.Is(err, psatoken.ErrMissingMandatory):
		return "E:missing-mandatory"
	case errors.Is(err, psatoken.ErrMissingOptional):
		return "E:missing-optional"
	case errors.Is(err, psatoken.ErrNotInProfile):
		return "E:not-in-profile"
	case errors.Is(err, psatoken.ErrWrongProfile):
		return "E:wrong-profile"
	case errors.Is(err, psatoken.ErrWrongSyntax):
		return "E:wrong-syntax"
	}
	return "E:other"
}

func okOrErr(err error) string {
	if err == nil {
		return "ok"
	}
	return "err"
}

type extraGetter interface{ GetExtra() (int64, error) }
type wideGetter interface{ GetWide() string }

// safely runs f, turning a panic into a marker (observation must not crash the
// simulator; panics are judged by C05's oracle, not here).
func safely(f func() string) (out string) {
	defer func() {
		if r := recover(); r != nil {
			out = fmt.Sprintf("PANIC(%v)", r)
		}
	}()
	return f()
}

func obsSw(sc psatoken.ISwComponent) string {
	if sc == nil {
		return "<nil>"
	}
	return safely(func() string {
		var sb strings.Builder
		mt, e1 := sc.GetMeasurementType()
		mv, e2 := sc.GetMeasurementValue()
		ver, e3 := sc.GetVersion()
		sid, e4 := sc.GetSignerID()
		md, e5 := sc.GetMeasurementDesc()
		fmt.Fprintf(&sb, "{mt=%q/%s mv=%x/%s ver=%q/%s sid=%x/%s md=%q/%s", mt, ec(e1), mv, ec(e2), ver, ec(e3), sid, ec(e4), md, ec(e5))
		if x, ok := sc.(interface{ GetXExtra() string }); ok {
			sb.WriteString(" x=" + x.GetXExtra())
		}
		sb.WriteString("}")
		return sb.String()
	})
}

// getterList renders every getter's (value, error class), one entry per claim
// in the fixed order of claimNames.
var claimNames = []string{"profile", "cid", "lc", "impl", "seed", "cert", "sw", "nonce", "inst", "vsi", "extra"}

func getterList(c psatoken.IClaims) (out []string) {
	defer func() {
		if r := recover(); r != nil {
			out = append(out, fmt.Sprintf("PANIC(%v)", r))
		}
	}()
	p, e := c.GetProfile()
	out = append(out, fmt.Sprintf("profile=%q/%s", p, ec(e)))
	cid, e := c.GetClientID()
	out = append(out, fmt.Sprintf("cid=%d/%s", cid, ec(e)))
	lc, e := c.GetSecurityLifeCycle()
	out = append(out, fmt.Sprintf("lc=%d/%s", lc, ec(e)))
	b, e := c.GetImplID()
	out = append(out, fmt.Sprintf("impl=%x/%s", b, ec(e)))
	b, e = c.GetBootSeed()
	out = append(out, fmt.Sprintf("seed=%x/%s", b, ec(e)))
	s, e := c.GetCertificationReference()
	out = append(out, fmt.Sprintf("cert=%q/%s", s, ec(e)))
	scs, e := c.GetSoftwareComponents()
	var sb strings.Builder
	fmt.Fprintf(&sb, "sw=%d/%s[", len(scs), ec(e))
	for _, sc := range scs {
		sb.WriteString(obsSw(sc))
	}
	sb.WriteString("]")
	out = append(out, sb.String())
	b, e = c.GetNonce()
	out = append(out, fmt.Sprintf("nonce=%x/%s", b, ec(e)))
	b, e = c.GetInstID()
	out = append(out, fmt.Sprintf("inst=%x/%s", b, ec(e)))
	s, e = c.GetVSI()
	out = append(out, fmt.Sprintf("vsi=%q/%s", s, ec(e)))
	if x, ok := c.(extraGetter); ok {
		v, e := x.GetExtra()
		out = append(out, fmt.Sprintf("extra=%d/%s", v, ec(e)))
	}
	if x, ok := c.(wideGetter); ok {
		out = append(out, "wide="+x.GetWide())
	}
	return out
}

// getterObs renders every getter's (value, error class).
func getterObs(c psatoken.IClaims) string {
	if c == nil {
		return "<nil claims>"
	}
	return strings.Join(getterList(c), ";") + ";"
}

// fullObs = getters + validation class + both encodings (bytes or error class).
func fullObs(c psatoken.IClaims) string {
	if c == nil {
		return "<nil claims>"
	}
	g := getterObs(c)
	v := safely(func() string { return ec(c.Validate()) })
	cb := safely(func() string {
		b, err := psatoken.EncodeClaimsToCBOR(c)
		if err != nil {
			return okOrErr(err)
		}
		return hex.EncodeToString(b)
	})
	js := safely(func() string {
		b, err := psatoken.EncodeClaimsToJSON(c)
		if err != nil {
			return okOrErr(err)
		}
		return string(b)
	})
	return g + "|validate=" + v + "|cbor=" + cb + "|json=" + js + fmt.Sprintf("|type=%T", c)
}

// obsEvidence: claims observation plus the verdict of Verify under every key
// of the pool (and nil).
func obsEvidence(e *psatoken.Evidence) string {
	var sb strings.Builder
	sb.WriteString(fullObs(e.Claims))
	sb.WriteString("|verify=")
	for i := -1; i < len(keyPool); i++ {
		i := i
		sb.WriteString(safely(func() string {
			if e.Verify(pubKey(i)) == nil {
				return "1"
			}
			return "0"
		}))
	}
	return sb.String()
}

// structObs renders what a caller can see of a value WITHOUT calling any of its
// methods: exported fields, recursively, with nil / non-nil pointers, interfaces
// and slices told apart. A read-side call that rewrites an exported field (a nil
// container where an empty one was, a cleared pointer) changes this rendering
// even when every getter still answers the same.
func structObs(x any) string {
	var sb strings.Builder
	func() {
		defer func() {
			if r := recover(); r != nil {
				fmt.Fprintf(&sb, "PANIC(%v)", r)
			}
		}()
		structWalk(&sb, reflect.ValueOf(x), 0)
	}()
	return sb.String()
}

var timeType = reflect.TypeOf(time.Time{})

func structWalk(sb *strings.Builder, v reflect.Value, depth int) {
	if !v.IsValid() {
		sb.WriteString("<invalid>")
		return
	}
	if depth > 10 {
		sb.WriteString("...")
		return
	}
	switch v.Kind() {
	case reflect.Ptr:
		if v.IsNil() {
			sb.WriteString("nil")
			return
		}
		sb.WriteString("&")
		structWalk(sb, v.Elem(), depth+1)
	case reflect.Interface:
		if v.IsNil() {
			sb.WriteString("nil-iface")
			return
		}
		fmt.Fprintf(sb, "<%s>", v.Elem().Type())
		structWalk(sb, v.Elem(), depth+1)
	case reflect.Struct:
		if v.Type() == timeType && v.CanInterface() {
			fmt.Fprintf(sb, "time(%d)", v.Interface().(time.Time).UnixNano())
			return
		}
		sb.WriteString("{")
		t := v.Type()
		for i := 0; i < v.NumField(); i++ {
			f := t.Field(i)
			if f.PkgPath != "" { // unexported: not observable
				continue
			}
			sb.WriteString(f.Name)
			sb.WriteString(":")
			structWalk(sb, v.Field(i), depth+1)
			sb.WriteString(",")
		}
		sb.WriteString("}")
	case reflect.Slice:
		if v.IsNil() {
			sb.WriteString("nil[]")
			return
		}
		if v.Type().Elem().Kind() == reflect.Uint8 {
			fmt.Fprintf(sb, "h'%x'", v.Bytes())
			return
		}
		fmt.Fprintf(sb, "[%d:", v.Len())
		for i := 0; i < v.Len(); i++ {
			structWalk(sb, v.Index(i), depth+1)
			sb.WriteString(",")
		}
		sb.WriteString("]")
	case reflect.Array:
		sb.WriteString("[")
		for i := 0; i < v.Len(); i++ {
			structWalk(sb, v.Index(i), depth+1)
			sb.WriteString(",")
		}
		sb.WriteString("]")
	case reflect.Map:
		if v.IsNil() {
			sb.WriteString("nil-map")
			return
		}
		keys := make([]string, 0, v.Len())
		vals := map[string]reflect.Value{}
		for _, k := range v.MapKeys() {
			ks := fmt.Sprintf("%v", k)
			keys = append(keys, ks)
			vals[ks] = v.MapIndex(k)
		}
		sort.Strings(keys)
		sb.WriteString("map{")
		for _, k := range keys {
			sb.WriteString(k + ":")
			structWalk(sb, vals[k], depth+1)
			sb.WriteString(",")
		}
		sb.WriteString("}")
	case reflect.String:
		fmt.Fprintf(sb, "%q", v.String())
	case reflect.Bool:
		fmt.Fprintf(sb, "%v", v.Bool())
	case reflect.Int, reflect.Int8, reflect.Int16, reflect.Int32, reflect.Int64:
		fmt.Fprintf(sb, "%d", v.Int())
	case reflect.Uint, reflect.Uint8, reflect.Uint16, reflect.Uint32, reflect.Uint64, reflect.Uintptr:
		fmt.Fprintf(sb, "%d", v.Uint())
	case reflect.Float32, reflect.Float64:
		fmt.Fprintf(sb, "%v", v.Float())
	default:
		fmt.Fprintf(sb, "<%s>", v.Kind())
	}
}
