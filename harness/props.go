package main

import "fmt"

func registerAll() {
	registerWorld(evidWorld{})
	registerWorld(netWorld{})
	registerWorld(histWorld{})
	registerWorld(obsWorld{})
	registerWorld(decWorld{})
	registerWorld(regWorld{})
	registerWorld(concWorld{})

	stubsEvid := []string{"FaultySigner (wrapper around the real go-cose signer)", "deterministic crypto.Signer wrapper over pool keys",
		"sim extension profiles XP1/XP2 (thin structs over the real encoding helpers, fault switch)", "committed key pool"}

	props["C19"] = &propSpec{
		ID: "C19", Worlds: []string{"W-EVID"}, QuickRuns: 12000, ThoroughRuns: 600000,
		Rule: "one run = one history of 1..30 operations {SetClaims, Sign, ValidateAndSign, UnmarshalCOSE, Verify, outside mutation} on one Evidence with signer faults and user-codec faults at PRNG-chosen positions; " +
			"non-trivial = at least one fault actually fired and at least one Verify was evaluated after it; distinct = distinct hash of (operation-kind+fault sequence, claims-pool profiles/defects, signer algorithms, token kinds)",
		Real: commonReal, Stubs: stubsEvid,
		Assumptions: []string{"go-cose's own Sign1 decoder decides whether an envelope is adoptable in the reference model",
			"the ledger of genuinely signed (protected,payload,signature) triples is complete because all signing in a run goes through the harness",
			"ECDSA signature malleability is not reachable by the injected faults"},
		MustProbes: []string{"binding_evaluated", "verify_after_failed_sign", "fresh_verify_ok", "unmarshal_claims_fail_envelope_ok", "sig.err", "sig.empty", "sig.badalg", "sig.shortsig", "codec.marshal_err"},
	}
	props["C08"] = &propSpec{
		ID: "C08", Worlds: []string{"W-EVID", "W-DEC"}, QuickRuns: 4000, ThoroughRuns: 400000,
		Rule: "even run indices (W-EVID): one history over an Evidence and a pool of claims-sets in assorted states (valid, invalid by construction, invalid by later mutation, extension codec with faults) exercising the seven validating gates; " +
			"odd run indices (W-DEC): real COSE / CBOR / JSON messages damaged in flight or structurally mutated at any tree node and re-signed by a Byzantine attester (so that they still decode but are invalid in every way a tree can be), each delivered to the three decoders and their validating twins; " +
			"non-trivial = at least one gate evaluated with claims whose Validate() fails and one with claims whose Validate() succeeds; distinct = distinct hash of (operation-kind+fault sequence, pools / message kinds)",
		Real: commonReal, Stubs: stubsEvid,
		Assumptions: []string{"the oracle is differential: Validate() of the real code and the non-validating sibling are the reference, no validation constant is mirrored"},
	}

	stubsNet := []string{"channel (in-flight slots, fault injector)", "verifier actors (trust store = one pool key each)", "deterministic crypto.Signer wrapper over pool keys",
		"sim extension profile XP2", "committed key pool"}
	props["C02"] = &propSpec{
		ID: "C02", Worlds: []string{"W-NET"}, QuickRuns: 2500, ThoroughRuns: 200000,
		Rule: "one run = 2..5 attesters (all seven algorithms, several keys per algorithm) emitting 2..6 tokens through reused Evidence objects; every token is delivered un-damaged to the right verifier, then 1..4 copies each take 1..3 channel faults (bit flip, byte substitution, multi-byte edit, truncation, extension, splice of protected/payload/signature from another in-flight token, header surgery, length-field inflation, concatenation) and are delivered to a verifier holding the right or a wrong key; the genuine token is also misrouted. " +
			"Runs 0..13 of every batch instead deliver EVERY single-bit flip of one token per (algorithm x profile). " +
			"non-trivial = at least one damaged token still decoded, so that Verify was the deciding step; distinct = distinct hash of (operation+fault kind sequence, claims shapes, algorithms, keys)",
		Real: commonReal, Stubs: stubsNet,
		Assumptions: []string{"ledger completeness: every signature in a run is produced through the harness, so 'genuinely signed by key k' is the set of (protected,payload,signature) triples recorded at emit time",
			"ECDSA (r, n-s) malleability is not reachable by the injected faults; any accepted token with a signature differing from the ledger is reported",
			"differences confined to the outer framing or the unprotected bucket are not 'modification' in the property's sense (the covered bytes are unchanged)"},
		MustProbes: []string{"damaged_still_decoded", "accepted_genuine", "misroute_rejected", "bitsweep_tokens", "net.splice", "net.hdr", "net.leninflate", "net.truncate", "net.bitflip", "net.bytesub", "net.multi", "net.extend", "net.concat", "net.misroute"},
	}
	props["C03"] = &propSpec{
		ID: "C03", Worlds: []string{"W-NET"}, QuickRuns: 2500, ThoroughRuns: 300000,
		Rule: "fault-free arm of W-NET: one run = 2..5 attesters x 2..6 emissions of generated valid claims-sets (both profiles + an extension profile, built by field assignment or through the setters) with a healthy signer of each of the seven algorithms, through a reused Evidence (SetClaims+ValidateAndSign | Sign) or a fresh one; each emission is checked at the attester and each token is delivered un-damaged (sometimes twice, sometimes also to a wrong key) to three kinds of verifier (decode, decode-and-validate, reused Evidence). " +
			"non-trivial = at least one complete sign->decode->verify round trip succeeded; distinct = distinct hash of (claims shape: profile, optional-claim subset, hash sizes, component count and optional fields; algorithm; key; emit mode)",
		Real: commonReal, Stubs: stubsNet,
		Assumptions: []string{"'valid claims-set' is decided by the library's own Validate() (a generated set it rejects is skipped and counted under probe emit_claims_not_valid)",
			"the quantifier 'all valid claims-sets' is sampled, not enumerated", "go-cose's verifier, called directly with empty external data, is the interoperability reference"},
		MustProbes: []string{"round_trip_ok", "accepted_genuine"},
	}

	props["C11"] = &propSpec{
		ID: "C11", Worlds: []string{"W-HIST"}, QuickRuns: 20000, ThoroughRuns: 3000000,
		Rule: "one run = one object (profile-1, profile-2, extension-on-P1, extension-on-P2 claims-set from NewClaims; a software component; a component container) and a history of 1..40 setter / Add / Replace calls with valid and invalid arguments interleaved and repeated, followed by a rebuild of a fresh object from the last successful call per claim in a permuted order, 1..3 times over. " +
			"Runs 0..16 of every batch are a deterministic prelude: every byte-string setter x every length 0..80 (exhaustive sub-space). " +
			"non-trivial = at least one call whose value the profile's validation accepts and one it rejects; distinct = distinct hash of (object kind, sequence of (setter, outcome))",
		Real: commonReal, Stubs: []string{"sim extension profiles XP1/XP2 (thin structs over the real encoding helpers)"},
		Assumptions: []string{"the reference for 'validation accepts the value for that claim' is Validate() of the real code on a probe claims-set that is otherwise valid and received the value without the setter (struct fields / container codec); no validation constant is mirrored",
			"which claims are mandatory is derived the same way (drop the claim from a valid set, ask Validate())",
			"an empty non-nil component list is the exempt 'clear' operation; only the library's own component type is used"},
		MustProbes: []string{"setter_ok", "setter_failed", "rebuild_compared", "all_mandatory_set", "sw_clear"},
	}

	props["C18"] = &propSpec{
		ID: "C18", Worlds: []string{"W-OBS"}, QuickRuns: 6000, ThoroughRuns: 600000,
		Rule: "one run = a pool of 2..6 objects (claims-sets built valid or invalid by field assignment or setters; claims decoded from CBOR / JSON / COSE messages, some structurally damaged at a tree node and re-signed; signing Evidence; decoded Evidence), values deliberately shared across objects and profiles, and a history of 1..30 steps: a read-side call (Validate, each getter, component getters, plain and validating encoders, Verify under any pool key or nil, Evidence.MarshalJSON / GetInstanceID / GetImplementationID) on the long-lived twin, the same call as the very first call on a fresh twin, or the channel overwriting / reusing the receive buffer an object was decoded from. After every step every object of the pool is re-observed (getters, validation class, CBOR and JSON bytes, Verify verdict under all 13 keys and nil) in a rotating order. " +
			"non-trivial = at least one read-side call on a pool holding both a valid and an invalid object; distinct = distinct hash of (object kinds and dynamic types, call sequence, whether a buffer was overwritten)",
		Real: commonReal, Stubs: []string{"channel owning the receive buffers", "deterministic crypto.Signer wrapper over pool keys", "sim extension profiles XP1/XP2", "committed key pool"},
		Assumptions: []string{"'observably unchanged' is judged through the public API (getters, Validate class, encodings, Verify verdicts), not by reflection, so an internal cache would not be reported",
			"reference Verify verdicts come from a fresh Evidence per key decoded from a pristine copy of the message"},
		MustProbes: []string{"virgin_call", "buf.scribble", "buf.reuse", "invalid_object", "valid_object"},
	}

	stubsDec := []string{"channel (fault injector)", "Byzantine attester (re-signs structurally damaged payloads with its own pool key)", "sim extension profiles XP1/XP2 and five struct shapes for the embedding-aware helpers", "one child process per trace"}
	decRule := "one run = 1..4 real messages (COSE token, bare CBOR claims, JSON claims, component list in CBOR / JSON, structs serialised by the embedding-aware helpers; valid and invalid claims of both profiles and two extension profiles) x 2..8 copies, each damaged by 1..3 faults (bit flip, byte substitution, multi-byte edit, truncation, extension, padding up to 64 KiB, inflated length fields, concatenation, header surgery, splice, deep nesting of arrays / maps / tags / byte strings / JSON brackets (also well-formed deep-and-wide JSON), neighbour edits of text and byte strings and of the profile claim, null / empty / duplicate / type-swapped / out-of-width members at any node of the CBOR or JSON tree), half of them applied to the signed payload and re-signed by a Byzantine attester; every delivered byte string goes to all 43 decoding entry points (COSE, CBOR and JSON claims decoders and their validating twins, a reused Evidence, the per-type Unmarshal methods on fresh and on long-lived reused targets, extension types through PopulateStructFromCBOR/JSON, component containers, seven struct shapes incl. embedded struct / embedded interface / nil interface / mandatory fields of plain kinds). " +
		"The first 50 runs of every batch are sweeps (incl. every member of a JSON message of each kind and struct shape replaced by each of eight literals): truncation at EVERY offset, substitution of EVERY CBOR head byte (also inside the signed payload and the protected header), and four floods of 2000 small documents with never-repeating member names, of one message per kind x profile (every 5th value in the quick tier, all 255 in the thorough tier). "
	props["C05"] = &propSpec{
		ID: "C05", Worlds: []string{"W-DEC"}, QuickRuns: 2500, ThoroughRuns: 300000, Isolated: true,
		Rule: decRule + "Whatever decodes is validated, read through every getter (components too), re-encoded to CBOR and JSON (plain and validating) and verified under one key of every kind and nil. non-trivial = a damaged message that at least one entry point still decoded; distinct = distinct hash of (message kinds, fired fault sequence)",
		Real: commonReal, Stubs: stubsDec,
		Assumptions: []string{"'every byte string' is sampled through the fault kinds, far more thinly than a coverage-guided fuzzer would (outside this technique, not substituted)",
			"a fatal runtime error of the receiving child process (stack overflow) counts as a violation; death by memory exhaustion is left to C06"},
		MustProbes: []string{"decoded_ok", "truncsweep_offsets", "headsweep_substitutions", "byz.tree", "json.member", "net.nest", "net.leninflate", "byz.resign+byz.tree"},
	}
	props["C06"] = &propSpec{
		ID: "C06", Worlds: []string{"W-DEC"}, QuickRuns: 1200, ThoroughRuns: 150000, Isolated: true,
		Rule: decRule + "Around every decode call: heap bytes allocated (runtime.MemStats.TotalAlloc delta) <= 1 MiB + 1 KiB x len(input); library statements executed (T2 yield points, load-independent) <= 5e6 + 500 x len(input); wall <= 5 s; the child runs under a 4 GiB address-space cap and its death or a 120 s hang is attributed to the journalled delivery. Messages up to ~64 KiB (padded text claims, padding faults). non-trivial and distinct as for C05",
		Real: commonReal, Stubs: stubsDec,
		Assumptions: []string{"TotalAlloc is measured in a single-goroutine child; runtime noise of a few KiB cannot flip a verdict against a budget of >= 1 MiB",
			"the statement budget is a deterministic stand-in for the property's 5 s wall deadline, set orders of magnitude above what a linear decoder needs"},
		MustProbes: []string{"decoded_ok", "net.leninflate", "net.nest", "net.pad", "net.truncate", "max_steps_in_one_call"},
	}

	stubsReg := []string{"eleven sim profile kinds (extension over P1, with and without the profile claim preset; two function-local claims types of the same type name with different profile members and no codecs of their own; extension over P2; own JSON profile member; own member whose json tag carries an option; two embedded structs with the profile-bearing one second; profile-1 shaped with a plain-text profile under key 265 and names that are not URIs; no profile field; profile field without json tag)", "hook T3 (register snapshot/restore, injected into the scratch copy only)", "seam T1 (map iteration order chosen by the simulator)"}
	regRule := "one run = the pristine register, a pool of 1..8 candidate profile names (URIs, a URN, plain strings, names with surrounding white space; the case / white-space variants of every name are probed as never-registered names) and a history of 1..40 operations {register (eleven profile kinds; new, duplicate and built-in names), re-register, NewClaims, dispatching decode of one of ~50 probe documents (both serialisations; every pool / built-in / unknown name under every profile member; no profile, null, non-string, both profiles' members), mutate-one-instance-read-the-other (two NewClaims results, two profiles, the same buffer decoded twice; 16 mutation kinds incl. writes through slices handed out by getters and in-place edits of the instance's profile object)}; every JSON dispatch is repeated under reverse and 2..10 permuted registry iteration orders; before and after EVERY registration attempt the whole probe set and NewClaims of every name are evaluated. "
	props["C16"] = &propSpec{
		ID: "C16", Worlds: []string{"W-REG"}, QuickRuns: 3000, ThoroughRuns: 300000, Isolated: true,
		Rule: regRule + "non-trivial = at least one successful and one failed registration and one JSON dispatch evaluated under several orders with an extra profile registered; distinct = distinct hash of (operation kinds with outcomes, name pool)",
		Real: commonReal, Stubs: stubsReg,
		Assumptions: []string{"reference model of the register: name -> kind; a registration must succeed iff the name is new and the kind has an identifiable profile field",
			"map iteration orders are sampled (reverse + permutations), not enumerated; the T1 rewrite is the only map range in the module (checked by go/types on every build)"},
		MustProbes: []string{"independence_checked", "map_ranges_under_chosen_order", "map.order"},
	}
	props["C07"] = &propSpec{
		ID: "C07", Worlds: []string{"W-REG"}, QuickRuns: 3000, ThoroughRuns: 300000, Isolated: true,
		Rule: regRule + "For C07 each dispatch is compared with a reference dispatch over the model register (declared name -> registered kind; nothing declared -> profile 1; unregistered or non-string value -> error) and with decoding the same bytes straight into a fresh NewClaims(declared) instance and validating it. non-trivial = at least one accepted token whose reported profile was checked, with an extra profile registered; distinct as for C16",
		Real: commonReal, Stubs: stubsReg,
		Assumptions: []string{"documents the property leaves open (profile claim null in CBOR, both profiles' members, a registered name under another profile's member) get only the weak invariant: never decoded as a profile other than a declared one or the default"},
		MustProbes:  []string{"accepted_token_profile_checked", "dispatch_expect_error", "dispatch_expect_p1", "dispatch_expect_p2", "dispatch_expect_xp1", "dispatch_expect_xp2", "dispatch_expect_own", "dispatch_expect_opt", "dispatch_expect_two", "dispatch_expect_str", "dispatch_expect_xp1n", "dispatch_expect_loca", "dispatch_expect_locb", "dispatch_expect_near", "dispatch_weak"},
	}

	props["C17"] = &propSpec{
		ID: "C17", Worlds: []string{"W-CONC"}, QuickRuns: 320, ThoroughRuns: 30000, Isolated: true, MinExecs: 120,
		Rule: "one run = 2..16 (thorough: up to 64) client tasks, each a real goroutine running 3..10 read-side operations (NewClaims; decode CBOR / JSON / COSE with and without validation; build+observe; Sign; Sign+Verify on private objects - and Validate, all getters, CBOR / JSON / validating encoders, Verify, Evidence.MarshalJSON, full observation on 1..4 SHARED claims-sets and decoded Evidence, read-only), under a seeded schedule: the PRNG names the next task at every one of the ~990 yield points woven before every statement of the library (switch probability 1, 1/4 or 1/32 per yield, or a PCT priority schedule with 1..3 change points); the race detector watches the race-instrumented library while the scheduler itself stays invisible to it; the same task lists then run sequentially on freshly built objects. " +
			"non-trivial = at least one switch into a task that was itself in the middle of a library call; distinct = distinct hash of (recorded schedule as run-length list of task ids per yield, operation lists)",
		Real: commonReal, Stubs: []string{"turn scheduler (simrt, //go:norace, Gosched hand-over, GOMAXPROCS=1)", "deterministic crypto.Signer wrapper over pool keys", "sim extension profiles XP1/XP2", "one child process per trace"},
		Assumptions: []string{"yield points exist in the two library packages only: calls into dependencies are atomic steps (their races would still be reported by the happens-before detector, but are not interleaved)",
			"the Go race detector keeps a bounded access history per memory word; runs are short to keep the window small, and the result-equality oracle does not depend on it",
			"operations are pure functions of private or read-only shared inputs (signatures are deterministic), so concurrent and sequential results must be equal"},
		MustProbes: []string{"switch_into_task_mid_call", "overlap_on_same_shared_object", "switches"},
	}

	evidenceExtra["C02"] = func(total *workerOut) map[string]any {
		return map[string]any{"exhaustive_subspaces": []string{fmt.Sprintf("every single-bit flip of %d tokens (one per algorithm x profile, runs 0..13): %d flips delivered to the verifier holding the signer's key",
			total.Probes["bitsweep_tokens"], total.Probes["bitsweep_flips"])}}
	}
	evidenceExtra["C11"] = func(total *workerOut) map[string]any {
		return map[string]any{"exhaustive_subspaces": []string{"runs 0..16: every byte-string setter (implementation id, boot seed, nonce, instance id with type byte 0x01 and 0x02 on P1, P2, XP2; measurement value and signer id on a component) x every length 0..80"}}
	}
	sweeps := func(total *workerOut) map[string]any {
		return map[string]any{"exhaustive_subspaces": []string{fmt.Sprintf("runs 0..29: truncation at every offset (%d prefixes) and substitution of CBOR head bytes (%d substitutions; every 5th value in the quick tier, all 255 in the thorough tier) of one message per kind x profile",
			total.Probes["truncsweep_offsets"], total.Probes["headsweep_substitutions"])}}
	}
	evidenceExtra["C05"] = sweeps
	evidenceExtra["C06"] = sweeps
	evidenceExtra["C17"] = func(total *workerOut) map[string]any {
		return map[string]any{"interleavings_measure": "distinct_nontrivial counts distinct hashes of the recorded schedule (run-length list of task ids per yield point) together with the operation lists",
			"context_switches": total.Faults["sched.switch"], "yield_points_executed": total.Steps}
	}
}
