#!/usr/bin/env python3
"""Regenerates /verif/MANIFEST.json from the table below (run after adding a check)."""
import json, os, sys

HERE = os.path.dirname(os.path.dirname(os.path.abspath(__file__)))

TECH = "deterministic simulation with fault injection: seeded search over operation histories, fault sequences and schedules; "

CHECKS = {
    "C19": dict(
        engine="W-EVID",
        technique=TECH + "reference model of Evidence + ledger of genuinely signed triples, signer/codec faults injected inside the history",
        text="Seeded exploration of operation histories (1..30 ops) on one Evidence with signer faults (error, nil/empty signature, unknown/changing algorithm, short signature, signature over other bytes) and user-codec faults at PRNG-chosen positions; after every step a two-field reference model plus a ledger of genuinely signed (protected,payload,signature) triples decides what Verify may and must return. Sampling, not proof: a clean batch is evidence.",
        note="Trusts go-cose's envelope decoder as the model's view of 'adoptable envelope', the harness CBOR walker, deterministic signing wrappers (RFC 6979 / seeded PSS salt), and that T1 source rewriting preserves semantics (pinned tests are run on the rewritten copy in setup).",
        ref="DESIGN.md §4 C19"),
    "C08": dict(
        engine="W-EVID",
        technique=TECH + "differential oracle (gate vs Validate() and vs non-validating sibling) evaluated inside Evidence/claims histories with codec faults",
        text="Seeded exploration of histories in which claims-sets become invalid by construction, by later mutation (setters or direct field edits) or by an injected user-codec failure, and every validating gate (SetClaims, ValidateAndSign, validate-and-encode CBOR/JSON, the decode-and-validate variants incl. the deprecated names) is compared with the real Validate() and its non-validating sibling; a shadow Evidence goes through the same history with the validating calls replaced by their plain counterparts and must stay indistinguishable (returned bytes, Verify verdicts) also after signer and codec faults; on odd run indices the decoder pairs are fed real messages damaged in flight or structurally mutated and re-signed. Differential, so no validation constant is mirrored.",
        note="Relative oracle: a change that moves a validation boundary consistently everywhere is (correctly) not reported here. Same trusted base as C19.",
        ref="DESIGN.md §4 C08"),
}

CHECKS["C02"] = dict(
    engine="W-NET",
    technique=TECH + "ledger oracle (accept => that key genuinely signed exactly these protected/payload/signature bytes) over channel faults on real in-flight tokens; every single-bit flip of 19 tokens (7 algorithms x 2 built-in profiles + 5 extension families) enumerated inside the search",
    text="Seeded exploration of attester -> channel -> verifier runs: real tokens of all seven algorithms are damaged in flight (bit flips, byte edits, truncation, extension, cross-token splices of protected/payload/signature, header surgery incl. alg moved to the unprotected bucket / nil payload / empty signature, inflated length fields, concatenation, edits of the signed payload as a CBOR tree incl. re-typings and re-encodings a decode/encode round trip would undo) and misrouted to verifiers holding other keys; a third of the verifiers touch the decoded Evidence (re-attach its claims, read/validate/encode them, try another key) before asking for the verdict; acceptance is allowed only for a (protected,payload,signature) triple the holder of that key produced. One exhaustive sub-space per batch: all single-bit flips of one token per algorithm x built-in profile and one per extension family.",
    note="Trusts the ledger (all signing goes through the harness), the harness CBOR walker (go-cose's decoder only as a fallback view), and the deterministic signing wrappers. ECDSA malleability is out of reach of the faults. Completeness (nothing genuine is rejected) is C03's half.",
    ref="DESIGN.md §4 C02")
CHECKS["C03"] = dict(
    engine="W-NET",
    technique=TECH + "conservation oracle on the fault-free arm of the attester/channel/verifier world: signed payload = validated encoding, decoded = original getter for getter, verifies in place, after decode and under go-cose directly",
    text="Seeded exploration of fault-free attester -> verifier round trips over generated valid claims-sets (both profiles and five extension families: plain, wide with up to 282 claims, own component type in a re-used P2Claims, plain-kind optional claims, over profile 1; built by field assignment or through setters), all seven algorithms and 13 pool keys, reused and fresh Evidence objects: tag-18 framing, payload byte-identical to ValidateAndEncodeClaimsToCBOR, protected alg, Verify on the signing Evidence, go-cose Verify with empty external data, decode-and-validate, getter-for-getter equality, decoded claims = decoding of the covered payload.",
    note="'Valid' is the library's own Validate(); the space of valid claims-sets is sampled. Same trusted base as C02.",
    ref="DESIGN.md §4 C03")

CHECKS["C11"] = dict(
    engine="W-HIST",
    technique=TECH + "differential oracle against the same profile's own Validate() on probe objects, before/after observation of failed calls, rebuild-in-permuted-order comparison; exhaustive byte-length prelude",
    text="Seeded exploration of setter histories (1..40 calls, valid/invalid/repeated, on profile-1, profile-2 and two extension claims-sets, a software component and a component container): accept-iff against Validate() of an otherwise valid probe that received the value without the setter; exact getter value and no other claim moved on success; full observation (getters, validation class, CBOR and JSON bytes, exported fields rendered without calling a method) unchanged on failure; SetSoftwareComponents agrees with the exported ValidateSwComponents; validates once every mandatory claim was set; a fresh object rebuilt from the last successful call per claim in permuted order and with repetition encodes identically. Every byte-string setter is swept over lengths 0..80 in every batch.",
    note="Relative oracle: a validation boundary moved consistently in setter and validator is (correctly) not reported here - that is C01/C14. Trusts the probe builder (exported struct fields, container codec) and the observation function.",
    ref="DESIGN.md §4 C11")

CHECKS["C18"] = dict(
    engine="W-OBS",
    technique=TECH + "observation snapshots (public API only) of every pool object before / after every read-side call and every buffer overwrite; twin objects observed in opposite orders; fresh-Evidence-per-key reference for Verify verdicts",
    text="Seeded exploration of read-only histories over pools of claims-sets and Evidence objects in assorted states (built valid/invalid, decoded from genuine or structurally damaged and re-signed CBOR/JSON/COSE messages, signing and decoded Evidence) with values shared across objects and profiles: every read-side call is made twice back to back and compared with its earlier results, is also made as the very first call on a fresh twin, and after every step every object of the pool is re-observed in a rotating order; the channel that owns the receive buffers zeroes, scrambles or reuses them after decoding and nothing observable (including Verify verdicts under 13 keys and nil) may move.",
    note="Observation is through getters, Validate class, CBOR/JSON bytes, Verify verdicts and a reflection walk over EXPORTED fields only (nil / empty / populated told apart): changes to unexported internals are not reported. Trusts the observation function and the deterministic signing wrappers.",
    ref="DESIGN.md §4 C18")

CHECKS["C05"] = dict(
    engine="W-DEC",
    technique=TECH + "invariant 'the receiving actor never panics' over channel / Byzantine-sender faults on real messages delivered to all 55 decode entry points, with truncation-at-every-offset, every-head-byte, tiny-input, tag-prefix and nesting-depth sweeps; one child process per trace",
    text="Seeded exploration of the receiving side: real COSE / CBOR / JSON / extension-profile / component-list / helper-struct messages are damaged in flight (bit flips, byte edits, truncation, padding, inflated lengths, concatenation, header surgery, deep nesting) or structurally mutated at any tree node and re-signed by a Byzantine attester, and every delivered byte string is handed to all 55 decoding entry points (incl. the deprecated names, five extension claims types and ten helper struct shapes); whatever decodes is validated, read through every getter, re-encoded (plain and validating, CBOR and JSON) and verified under every key kind and nil. A recovered panic, or a fatal crash of the receiving child, is the violation. Sweeps in every batch: truncation at every offset and substitution of every CBOR head byte of one message per kind x profile; every one-byte input and the two-byte inputs behind argument-carrying first bytes (all 65536 in the thorough tier); every message behind 30 tag numbers in all five head widths; a self-nesting struct chain of every depth 1..34.",
    note="Reach is what the fault kinds produce from real messages: much thinner than coverage-guided fuzzing, which is outside this technique and is not substituted (DESIGN.md says so). byz.tree / json.member are structure-aware mutation under a Byzantine-sender name.",
    ref="DESIGN.md §4 C05")
CHECKS["C06"] = dict(
    engine="W-DEC",
    technique=TECH + "resource-budget invariant per decode call (TotalAlloc delta, executed-statement count from woven yield points, wall clock) in a memory-capped child process, over truncation / inflated-length / nesting / padding faults",
    text="Same receiving-side world as C05, measured: around every decode call the child records heap bytes allocated (budget 1 MiB + 1 KiB per input byte, as the property states), library statements executed (T2 yield points; budget 5e6 + 500 per input byte, a load-independent stand-in for the 5 s deadline) and wall time (5 s); the child runs under a 4 GiB address-space cap, and its death or a 120 s hang is attributed to the journalled delivery and replayed in a fresh child. Faults that matter: truncation at every offset, every length head inflated to 2^8..2^64-1, nesting up to 10^5 levels (arrays, maps, tags, byte strings, deep-and-wide JSON), thousands of tiny members, messages padded to 64 KiB, floods of small documents followed by a live-heap comparison.",
    note="Sampling of the input space through fault kinds, not fuzzing. The statement budget is my own proxy for the wall deadline; its constants are far above linear behaviour. Nothing about speed is claimed.",
    ref="DESIGN.md §4 C06")

CHECKS["C16"] = dict(
    engine="W-REG",
    technique=TECH + "reference model of the register + differential probe set evaluated before/after every registration attempt + mutate-one-read-the-other + JSON dispatch repeated under simulator-chosen map iteration orders (seam T1); one fresh process per history",
    text="Seeded exploration of register histories from the pristine state: registrations of fourteen profile kinds under new, duplicate and built-in names (URIs, a URN, an OID, plain strings, mixed case, padded) are judged by a name->kind model; around every attempt ~50 probe documents (both serialisations) and NewClaims of every name are evaluated, only lookups declaring a newly registered name may change, and those that declare it and that the kind itself decodes must now be answered by it; two instances (NewClaims twice, two profiles, one buffer decoded twice) are driven through 15 mutation kinds on one side while the other is observed; every JSON dispatch is repeated under reverse and permuted registry iteration orders and must give the same outcome.",
    note="Iteration orders are chosen by the simulator through the T1 rewrite of the library's only map range (a newly added map range is woven automatically; one with a side-effecting operand stops the build, exit 2). Trusts the hook file injected into the scratch copy (adds code only).",
    ref="DESIGN.md §4 C16")
CHECKS["C07"] = dict(
    engine="W-REG",
    technique=TECH + "reference dispatch over the model register + differential re-decoding of the same bytes straight into NewClaims(declared), in configurations reached by registration histories and under chosen map iteration orders",
    text="Same engine as C16 with a dispatch-centred workload: every probe document (profile present under each member / absent / null / non-string / unknown / other profile's name / both profiles' members; key 265 in shortest form, non-shortest form, last in the map) is dispatched in registers with 0..8 extra profiles and compared with the reference dispatch (declared -> registered kind, nothing -> profile 1, unregistered -> error) and with decoding the same bytes into a fresh NewClaims(declared) instance and validating it; accepted tokens must report the declared profile; NewClaims(p) must report p.",
    note="Documents the property leaves open get only the weak invariant (never a profile other than a declared one or the default).",
    ref="DESIGN.md §4 C07")

CHECKS["C17"] = dict(
    engine="W-CONC",
    technique=TECH + "real goroutines released one at a time by a seeded turn scheduler at yield points woven before every library statement; race detector on the race-instrumented library (scheduler invisible to it) + equality with a sequential run + shared-object observation; recorded schedules replayed and minimised",
    text="Seeded exploration of schedules: 2..64 client goroutines run read-side operations on private objects (one claims-set in ten with 257..300 software components; deprecated decoder names included) and, read-only, on shared claims-sets and shared decoded Evidence; at each of ~990 yield points woven into the two library packages the PRNG (or the recorded schedule) names the task that runs next (statement-granular, 1/4, 1/32 switch probability, or PCT with 1..3 change points). Oracles: any race-detector report with a non-simulator frame; every operation's result equals the sequential run's; shared objects look like identically built untouched ones afterwards. A failing run's schedule is recorded as a run-length list, replayed in a fresh process and minimised (fewer operations, then fewer context switches).",
    note="Interleaving granularity is the library statement; calls into dependencies are atomic steps; a task holding a sync.Mutex/RWMutex or inside sync.Once.Do (recognised by the weaver) does not park. GOMAXPROCS=1 + asyncpreemptoff so that the choice of who runs is the simulator's alone. The race detector's bounded per-word history is mitigated by short runs; the equality oracle does not depend on it.",
    ref="DESIGN.md §4 C17")

NA = {
    "C01": "pure predicate of one claims-set: no history, fault, schedule or seam can change the verdict; deciding it needs an independent model over a value-class product space (input enumeration), which is not this technique",
    "C04": "CBOR acceptance/fidelity is a pure function of the input bytes, decided by an independent encoder over value classes; nothing for a scheduler or fault injector to own",
    "C09": "decode(encode(x)) identity and byte stability are pure functions of one claims-set; no state, seam or schedule involved",
    "C10": "the emitted wire format is a pure function of one claims-set, decided by an independent CBOR reader over inputs",
    "C12": "JSON round-trip and CBOR<->JSON equivalence are pure functions of one claims-set (its only nondeterministic ingredient, JSON dispatch over the register, is decided under C07/C16)",
    "C13": "error classification is a pure function of (claims-set, call); FilterError is a pure function of an error value",
    "C14": "total function on a 16-bit domain: exhaustive enumeration is the right tool; there is nothing to schedule or fault",
    "C15": "the embedding-aware codec is a pure function of (struct shape, field values); its key order comes from an explicit slice, not a map range, so there is no iteration-order nondeterminism to own",
    "C20": "envelope acceptance is a pure function of the input bytes, decided by enumerating envelope shapes with an independent encoder",
}

PENDING = {}

def main():
    checks = []
    for pid in sorted(CHECKS):
        c = CHECKS[pid]
        checks.append({
            "property_id": pid,
            "quick_cmd": f"./check {pid} quick",
            "thorough_cmd": f"./check {pid} thorough",
            "evidence_file": f"/verif/evidence/{pid}.json",
            "replay_cmd_template": f"./check {pid} --replay {{path}}",
            "engine": c["engine"],
            "level_claimed": {"category": "exploration", "text": c["text"], "design_ref": c["ref"]},
            "level_note": c["note"],
            "technique": c["technique"],
        })
    na = [{"property_id": k, "reason": v} for k, v in sorted(NA.items())]
    na += [{"property_id": k, "reason": v} for k, v in sorted(PENDING.items()) if k not in CHECKS]
    m = {
        "version": 1,
        "setup_cmd": "./setup.sh",
        "hooks": {
            "guard": "verif",
            "enable": "no hook lives in /repo: ./check copies /repo's working tree to a scratch dir, tools/simbuild weaves the seams there (T1 map-order, T2 yield points, T3 hooks/zz_verif_hooks.go.txt with //go:build verif) and the harness is built with -tags verif",
            "baseline_off_cmd": "cd /repo && go test -vet=off -count=1 ./...",
            "source_commits": [],
            "add_only": True,
        },
        "engines": [
            {"name": "simbuild", "path": "tools/simbuild", "serves_properties": sorted(CHECKS), "kind_free_text": "source weaver: scratch copy + T1 map-range seam (go/types) + T2 yield points + T3 hook file"},
            {"name": "simrt", "path": "simrt", "serves_properties": sorted(CHECKS), "kind_free_text": "run-time seams: map-order hook, race-detector-invisible turn scheduler, step counter"},
            {"name": "harness", "path": "harness", "serves_properties": sorted(CHECKS), "kind_free_text": "worlds, fault injectors, reference models, oracles, minimiser, replay, evidence writer"},
        ],
        "checks": checks,
        "not_applicable": na,
        "notes": "Every check rebuilds from /repo's current working tree (VERIF_REPO overrides the path for scratch copies). Exit 0 held / 1 VIOLATION / 2 build or harness trouble. VERIF_SEED selects the batch; a replay file is a concrete trace and needs no seed.",
    }
    with open(os.path.join(HERE, "MANIFEST.json"), "w") as f:
        json.dump(m, f, indent=1)
        f.write("\n")

if __name__ == "__main__":
    main()
