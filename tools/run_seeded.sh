#!/bin/bash
# tools/run_seeded.sh [tier] [name-glob] [parallel]
# Re-runs every kept seeded change against the checks recorded in its meta.json (caught_by)
# and reports whether each is still caught. Scratch worktrees only; /repo and the committed
# evidence are never touched.
tier="${1:-quick}"; glob="${2:-*}"; par="${3:-2}"
cd "$(dirname "$0")/.."
one() {
  d="$1"; tier="$2"; n="$(basename "$d")"
  ids="$(python3 - "$d/meta.json" <<'P'
import json,sys,re
m=json.load(open(sys.argv[1]))
ids=[]
for c in m.get('caught_by',[]):
    for i in re.findall(r'C\d\d', c):
        if i not in ids: ids.append(i)
print(' '.join(ids[:1]))
P
)"
  [ -n "$ids" ] || { echo "SKIPPED $n (no check is recorded as reporting it)"; return; }
  out="$(tools/trymutant.sh "$d" "$tier" $ids 2>&1)"
  if echo "$out" | grep -q "exit=1"; then echo "CAUGHT  $n  ($(echo "$out" | grep -m1 'exit=1' | sed 's/  */ /g' | cut -c1-100))"; else echo "MISSED  $n"; echo "$out" | sed 's/^/    /'; fi
}
export -f one
ls -d seeded/$glob/ | xargs -P "$par" -I{} bash -c 'one {} '"$tier"
