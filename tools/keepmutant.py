#!/usr/bin/env python3
"""keepmutant.py <srcdir> <name> <property> <caught_by(comma sep)|none> [note]  -> /verif/seeded/<name>/"""
import sys, os, json, shutil
src, name, prop, caught = sys.argv[1:5]
note = sys.argv[5] if len(sys.argv) > 5 else ""
dst = os.path.join('/verif/seeded', name)
os.makedirs(dst, exist_ok=True)
for f in ('patch.diff', 'demo_test.go'):
    shutil.copy(os.path.join(src, f), os.path.join(dst, f))
needs = open(os.path.join(src, 'notes.txt')).read().strip() if os.path.exists(os.path.join(src, 'notes.txt')) else ""
meta = {
    "breaks_property": prop,
    "origin": "written by an independent sub-agent that saw only the property text and a scratch worktree (nothing from /verif)",
    "needs_to_manifest": needs,
    "confirmed": "tools/trymutant.sh <dir> quick <ids>: patch applied to a scratch worktree of /repo HEAD; pinned suite (go test -vet=off -count=1 ./...) passes with it; demo_test.go (TestDemo_*) fails with it and passes without it",
    "caught_by": [c for c in caught.split(',') if c and c != 'none'],
    "note": note,
}
json.dump(meta, open(os.path.join(dst, 'meta.json'), 'w'), indent=1)
print("kept", dst)
