package main

import (
	"bytes"
	"encoding/hex"
	"encoding/json"
	"fmt"
	"strings"

	psatoken "github.com/veraison/psatoken"
	"github.com/veraison/psatoken/encoding"
	"github.com/veraison/psatoken/zzverif/simrt"
)

// W-OBS: a pool of claims-sets and Evidence objects in assorted states (built
// valid / invalid, decoded from genuine, structurally damaged or re-signed
// messages in all three serialisations, signing Evidence, decoded Evidence)
// on which only read-side calls are made, interleaved across objects, while the
// channel that owns the receive buffers reuses or scribbles them. Serves C18.
//
// Observation is by the public API only (getters, validation class, CBOR and
// JSON bytes, Verify verdicts), so a legitimate internal cache raises no alarm.
// Every object exists as two twins built from the same recipe; they are first
// observed in opposite orders (so that neither "encode mutates what validate
// sees" nor "validate mutates what encode emits" can hide in the first
// observation), then twin A carries the history.

type ObsObj struct {
	Kind   string `json:"kind"` // built | dec-cbor | dec-json | ev-signed | ev-decoded
	Claims int    `json:"claims"`
	Signer int    `json:"signer,omitempty"`
	Tree   []int  `json:"tree,omitempty"` // pairs (node, variant): byz.tree on the CBOR payload / json.member on the document
	Setter bool   `json:"via_setters,omitempty"`
	// Edit > 0: after the Evidence was decoded / signed, its owner updated the
	// attached claims in place (so they no longer are what is under the signature)
	Edit int `json:"edit,omitempty"`
}

type ObsCfg struct {
	Claims  []ClaimsDesc `json:"claims"`
	Signers []SignerSpec `json:"signers"`
	Objs    []ObsObj     `json:"objs"`
}

type obsWorld struct{}

func (obsWorld) Name() string { return "W-OBS" }

var obsClaimCalls = []string{"validate", "g.profile", "g.cid", "g.lc", "g.impl", "g.seed", "g.cert", "g.sw", "g.nonce", "g.inst", "g.vsi",
	"enc.cbor", "enc.json", "venc.cbor", "venc.json", "sw.deep", "ser.cbor", "ser.json", "ser.tag"}
var obsEvCalls = []string{"verify", "ev.json", "ev.instid", "ev.implid"}

func (obsWorld) Gen(prop, tier string, idx int, r *Rng) *Trace {
	var cfg ObsCfg
	fams := []string{"p1", "p2", "p1", "p2", "xp2", "xp1", "xw", "xc", "xk"}
	nClaims := r.Range(2, 5)
	for i := 0; i < nClaims; i++ {
		pf := fams[r.Intn(len(fams))]
		if r.Chance(3, 5) {
			cfg.Claims = append(cfg.Claims, genValidClaims(r, pf))
		} else {
			cfg.Claims = append(cfg.Claims, genInvalidClaims(r, pf))
		}
	}
	// value sharing across objects and profiles (what a package-level memo or
	// an aliased buffer would need in order to show)
	for i := 0; i < nClaims; i++ {
		for j := 0; j < nClaims; j++ {
			if i == j || !r.Chance(1, 3) {
				continue
			}
			a, b := &cfg.Claims[i], &cfg.Claims[j]
			switch r.Intn(5) {
			case 0:
				if a.CertRef != nil {
					b.CertRef = sp(*a.CertRef)
				}
			case 1:
				if a.VSI != nil {
					b.VSI = sp(*a.VSI)
				}
			case 2:
				if a.Nonce != nil && b.Nonce != nil {
					b.Nonce = hp(append([]byte{}, (*a.Nonce)...))
				}
			case 3:
				if a.ImplID != nil && b.ImplID != nil {
					b.ImplID = hp(append([]byte{}, (*a.ImplID)...))
				}
			case 4:
				if a.BootSeed != nil && b.BootSeed != nil {
					b.BootSeed = hp(append([]byte{}, (*a.BootSeed)...))
				}
			}
		}
	}
	nSig := r.Range(1, 3)
	for i := 0; i < nSig; i++ {
		cfg.Signers = append(cfg.Signers, genSignerSpec(r, true))
	}
	kinds := []string{"built", "built", "dec-cbor", "dec-json", "ev-signed", "ev-decoded", "ev-decoded"}
	nObj := r.Range(2, 6)
	for i := 0; i < nObj; i++ {
		o := ObsObj{Kind: kinds[r.Intn(len(kinds))], Claims: r.Intn(nClaims), Signer: r.Intn(nSig)}
		if o.Kind == "built" {
			o.Setter = r.Chance(1, 4)
		}
		if strings.HasPrefix(o.Kind, "ev-") && r.Chance(1, 3) {
			o.Edit = r.Range(1, 5)
		}
		if o.Kind != "built" && o.Kind != "ev-signed" && r.Chance(1, 3) {
			n := r.Range(1, 2)
			for k := 0; k < n; k++ {
				o.Tree = append(o.Tree, r.Intn(64), r.Intn(64))
			}
		}
		cfg.Objs = append(cfg.Objs, o)
	}
	n := r.Range(1, 30)
	var ops []Op
	for i := 0; i < n; i++ {
		oi := r.Intn(nObj)
		isEv := strings.HasPrefix(cfg.Objs[oi].Kind, "ev-")
		switch k := r.Intn(10); {
		case k < 6:
			op := Op{K: "read", A: oi}
			if isEv && r.Chance(1, 2) {
				op.S = obsEvCalls[r.Intn(len(obsEvCalls))]
				op.C = r.Range(-1, len(keyPool)-1)
				if r.Chance(1, 2) {
					op.C = cfg.Signers[cfg.Objs[oi].Signer].Key
				}
			} else {
				op.S = obsClaimCalls[r.Intn(len(obsClaimCalls))]
			}
			ops = append(ops, op)
		case k < 8:
			op := Op{K: "virgin", A: oi, S: obsClaimCalls[r.Intn(len(obsClaimCalls))]}
			if isEv && r.Chance(1, 2) {
				op.S = obsEvCalls[r.Intn(len(obsEvCalls))]
				op.C = r.Range(-1, len(keyPool)-1)
			}
			ops = append(ops, op)
		default:
			op := Op{K: "scribble", A: oi, B: r.Intn(4), F: "buf.scribble"}
			if op.B == 1 {
				op.X = r.Bytes(r.Range(1, 64))
			}
			if op.B == 3 {
				op.F = "buf.reuse"
				op.D = r.Intn(nObj)
			}
			ops = append(ops, op)
		}
	}
	cj, _ := json.Marshal(cfg)
	return &Trace{World: "W-OBS", Cfg: cj, Ops: ops}
}

// ---- observation in parts

type obsParts map[string]string

var obsOrders = [][]string{
	{"cbor", "json", "getters", "validate", "verify"},
	{"validate", "getters", "json", "cbor", "verify"},
	{"verify", "json", "validate", "cbor", "getters"},
	{"getters", "verify", "cbor", "validate", "json"},
}

func observe(c psatoken.IClaims, e *psatoken.Evidence, order []string, verifyRev bool) obsParts {
	p := obsParts{}
	// first, and through no method of the object: whatever an earlier read-side
	// call did to an exported field shows here
	p["struct"] = structObs(c)
	for _, k := range order {
		switch k {
		case "getters":
			p[k] = getterObs(c)
		case "validate":
			if c == nil {
				p[k] = "<nil>"
			} else {
				// same build on both sides of every comparison in this world, so the
				// error text may be compared as well as its class
				p[k] = safely(func() string { return errText(c.Validate()) })
			}
		case "cbor":
			if c == nil {
				p[k] = "<nil>"
			} else {
				p[k] = safely(func() string {
					b, err := psatoken.EncodeClaimsToCBOR(c)
					if err != nil {
						return "err"
					}
					return hex.EncodeToString(b)
				})
			}
		case "json":
			if c == nil {
				p[k] = "<nil>"
			} else {
				p[k] = safely(func() string {
					b, err := psatoken.EncodeClaimsToJSON(c)
					if err != nil {
						return "err"
					}
					return string(b)
				})
			}
		case "verify":
			if e == nil {
				p[k] = "-"
				break
			}
			v := make([]byte, len(keyPool)+1)
			for n := 0; n <= len(keyPool); n++ {
				i := n - 1
				if verifyRev {
					i = len(keyPool) - 1 - n
				}
				i2 := i
				v[i+1] = safely(func() string {
					if e.Verify(pubKey(i2)) == nil {
						return "1"
					}
					return "0"
				})[0]
			}
			p[k] = string(v)
		}
	}
	return p
}

func errText(err error) string {
	if err == nil {
		return "ok"
	}
	return ec(err) + ": " + err.Error()
}

// obsOrderTick makes every library map range executed during W-OBS use a
// different iteration order from the previous one (seam T1): a result that
// depends on map order then differs between repetitions.
var obsOrderTick int

func obsOrderFn(site, n int) []int {
	obsOrderTick++
	p := make([]int, n)
	for i := range p {
		p[i] = (i*(1+obsOrderTick%2*(n-1)) + obsOrderTick) % n
		if obsOrderTick%2 == 1 {
			p[i] = (n - 1 - i + obsOrderTick) % n
		}
	}
	seen := make([]bool, n)
	for _, v := range p {
		if v < 0 || v >= n || seen[v] {
			q := make([]int, n)
			for i := range q {
				q[i] = (i + obsOrderTick) % n
			}
			return q
		}
		seen[v] = true
	}
	return p
}

func diffParts(a, b obsParts) string {
	for _, k := range []string{"struct", "getters", "validate", "cbor", "json", "verify"} {
		if a[k] != b[k] {
			return fmt.Sprintf("%s:\n   was: %s\n   now: %s", k, a[k], b[k])
		}
	}
	return ""
}

// ---- materialising objects

type obsLive struct {
	claims psatoken.IClaims
	ev     *psatoken.Evidence
	buf    []byte // the receive buffer the decoder was handed (owned by the channel)
	msg    []byte // pristine copy of the message
}

func (o *ObsObj) message(cfg *ObsCfg) ([]byte, bool) {
	if o.Claims < 0 || o.Claims >= len(cfg.Claims) {
		return nil, false
	}
	c, err := cfg.Claims[o.Claims].build()
	if err != nil {
		return nil, false
	}
	switch o.Kind {
	case "dec-cbor", "ev-decoded":
		payload, err := psatoken.EncodeClaimsToCBOR(c)
		if err != nil {
			return nil, false
		}
		for i := 0; i+1 < len(o.Tree); i += 2 {
			payload, _ = applyTreeFault(payload, o.Tree[i], o.Tree[i+1])
		}
		if o.Kind == "dec-cbor" {
			return payload, true
		}
		if o.Signer < 0 || o.Signer >= len(cfg.Signers) {
			return nil, false
		}
		tok, err := directSign(cfg.Signers[o.Signer], payload)
		if err != nil {
			return nil, false
		}
		return tok, true
	case "dec-json":
		doc, err := psatoken.EncodeClaimsToJSON(c)
		if err != nil {
			return nil, false
		}
		for i := 0; i+1 < len(o.Tree); i += 2 {
			doc, _ = applyJSONFault(doc, o.Tree[i], o.Tree[i+1])
		}
		return doc, true
	}
	return nil, false
}

func (o *ObsObj) materialise(cfg *ObsCfg) *obsLive {
	l := &obsLive{}
	ok := false
	func() {
		defer func() {
			if r := recover(); r != nil {
				ok = false
			}
		}()
		switch o.Kind {
		case "built":
			if o.Claims < 0 || o.Claims >= len(cfg.Claims) {
				return
			}
			var err error
			if o.Setter {
				l.claims, err = cfg.Claims[o.Claims].buildViaSetters()
			} else {
				l.claims, err = cfg.Claims[o.Claims].build()
			}
			ok = err == nil
		case "ev-signed":
			if o.Claims < 0 || o.Claims >= len(cfg.Claims) || o.Signer < 0 || o.Signer >= len(cfg.Signers) {
				return
			}
			c, err := cfg.Claims[o.Claims].build()
			if err != nil {
				return
			}
			hs, err := healthySigner(cfg.Signers[o.Signer])
			if err != nil {
				return
			}
			e := &psatoken.Evidence{Claims: c}
			tok, err := e.Sign(hs)
			if err != nil {
				return
			}
			l.claims, l.ev, l.msg = c, e, tok
			ok = true
		default:
			msg, mok := o.message(cfg)
			if !mok {
				return
			}
			l.msg = msg
			l.buf = append([]byte{}, msg...)
			var err error
			switch o.Kind {
			case "dec-cbor":
				l.claims, err = psatoken.DecodeClaimsFromCBOR(l.buf)
			case "dec-json":
				l.claims, err = psatoken.DecodeClaimsFromJSON(l.buf)
			case "ev-decoded":
				l.ev, err = psatoken.DecodeEvidenceFromCOSE(l.buf)
				if err == nil {
					l.claims = l.ev.Claims
				}
			}
			ok = err == nil
		}
	}()
	if !ok || (l.claims == nil && l.ev == nil) {
		return nil
	}
	if o.Edit > 0 && l.ev != nil && l.ev.Claims != nil {
		func() {
			defer func() { _ = recover() }()
			c := l.ev.Claims
			switch o.Edit % 5 {
			case 0:
				_ = c.SetClientID(424242)
			case 1:
				_ = c.SetVSI("edited after the fact")
			case 2:
				_ = c.SetNonce(bytes.Repeat([]byte{0x5a}, 48))
			case 3:
				_ = c.SetSecurityLifeCycle(0x2001)
			case 4:
				_ = c.SetImplID(bytes.Repeat([]byte{0xa5}, 32))
			}
		}()
	}
	return l
}

// cur is the claims-set an object exposes right now: for an Evidence, whatever
// its Claims field holds at this moment (a read-side call must not swap it).
func (l *obsLive) cur() psatoken.IClaims {
	if l.ev != nil {
		return l.ev.Claims
	}
	return l.claims
}

// readCall performs one read-side call and renders its result.
func readCall(l *obsLive, call string, key int) string {
	c := l.cur()
	return safely(func() string {
		if strings.HasPrefix(call, "ev.") || call == "verify" {
			if l.ev == nil {
				return "n/a"
			}
			switch call {
			case "verify":
				return okOrErr(l.ev.Verify(pubKey(key)))
			case "ev.json":
				b, err := l.ev.MarshalJSON()
				return string(b) + "/" + okOrErr(err)
			case "ev.instid":
				if p := l.ev.GetInstanceID(); p != nil {
					return hex.EncodeToString(*p)
				}
				return "<nil>"
			case "ev.implid":
				if p := l.ev.GetImplementationID(); p != nil {
					return hex.EncodeToString(*p)
				}
				return "<nil>"
			}
		}
		if c == nil {
			return "n/a"
		}
		gl := func(i int) string {
			l := getterList(c)
			if i < len(l) {
				return l[i]
			}
			return "?"
		}
		switch call {
		case "validate":
			return errText(c.Validate())
		case "g.profile":
			v, e := c.GetProfile()
			return fmt.Sprintf("%q/%s", v, ec(e))
		case "g.cid":
			v, e := c.GetClientID()
			return fmt.Sprintf("%d/%s", v, ec(e))
		case "g.lc":
			v, e := c.GetSecurityLifeCycle()
			return fmt.Sprintf("%d/%s", v, ec(e))
		case "g.impl":
			v, e := c.GetImplID()
			return fmt.Sprintf("%x/%s", v, ec(e))
		case "g.seed":
			v, e := c.GetBootSeed()
			return fmt.Sprintf("%x/%s", v, ec(e))
		case "g.cert":
			v, e := c.GetCertificationReference()
			return fmt.Sprintf("%q/%s", v, ec(e))
		case "g.sw":
			return gl(6)
		case "g.nonce":
			v, e := c.GetNonce()
			return fmt.Sprintf("%x/%s", v, ec(e))
		case "g.inst":
			v, e := c.GetInstID()
			return fmt.Sprintf("%x/%s", v, ec(e))
		case "g.vsi":
			v, e := c.GetVSI()
			return fmt.Sprintf("%q/%s", v, ec(e))
		case "enc.cbor":
			b, e := psatoken.EncodeClaimsToCBOR(c)
			return fmt.Sprintf("%x/%s", b, okOrErr(e))
		case "enc.json":
			b, e := psatoken.EncodeClaimsToJSON(c)
			return fmt.Sprintf("%s/%s", b, okOrErr(e))
		case "venc.cbor":
			b, e := psatoken.ValidateAndEncodeClaimsToCBOR(c)
			return fmt.Sprintf("%x/%s", b, okOrErr(e))
		case "venc.json":
			b, e := psatoken.ValidateAndEncodeClaimsToJSON(c)
			return fmt.Sprintf("%s/%s", b, okOrErr(e))
		case "ser.cbor":
			// the embedding-aware serialiser handed the caller's claims-set itself, not a copy
			b, e := encoding.SerializeStructToCBOR(xem, c)
			return fmt.Sprintf("%x/%s", b, okOrErr(e))
		case "ser.json":
			b, e := encoding.SerializeStructToJSON(c)
			return fmt.Sprintf("%s/%s", b, okOrErr(e))
		case "ser.tag":
			tg, e := encoding.GetProfileJSONTag(c)
			return fmt.Sprintf("%s/%s", tg, okOrErr(e))
		case "sw.deep":
			scs, e := c.GetSoftwareComponents()
			s := ec(e)
			for _, sc := range scs {
				s += "|" + ec(sc.Validate()) + obsSw(sc)
			}
			return s
		}
		return "?"
	})
}

func (obsWorld) Exec(prop string, t *Trace) *Result {
	res := newResult()
	var cfg ObsCfg
	if err := json.Unmarshal(t.Cfg, &cfg); err != nil {
		res.Fatal = "bad cfg: " + err.Error()
		return res
	}
	registerSimProfiles()
	disarmCodec()
	obsOrderTick = 0
	simrt.OrderFn = obsOrderFn
	defer func() { simrt.OrderFn = nil }()
	n := len(cfg.Objs)
	A := make([]*obsLive, n)
	type heldBytes struct {
		ret, snap []byte
		at        int
		what      string
	}
	var heldEnc []heldBytes
	obs0 := make([]obsParts, n)
	first := make([]map[string]string, n)
	refVerify := make([]string, n)
	shape := ""
	for i := range cfg.Objs {
		o := &cfg.Objs[i]
		a, b := o.materialise(&cfg), o.materialise(&cfg)
		shape += o.Kind
		if a == nil || b == nil {
			res.Probes["object_not_materialised"]++
			continue
		}
		shape += fmt.Sprintf("%T", a.claims)
		A[i] = a
		first[i] = map[string]string{}
		pa := observe(a.cur(), a.ev, obsOrders[0], false)
		pb := observe(b.cur(), b.ev, obsOrders[1], true)
		res.Evals++
		if d := diffParts(pa, pb); d != "" {
			res.violate("C18", "first-observation-order-dependent", "", -1, "two identically built objects (%s) observed in opposite orders disagree, so a read-side call changed what a later one sees: %s", o.Kind, d)
		}
		obs0[i] = pa
		if v := pa["validate"]; v != "ok" && v != "<nil>" {
			res.Probes["invalid_object"]++
		} else {
			res.Probes["valid_object"]++
		}
		// reference Verify verdicts: one fresh Evidence per key, no history at all
		if a.ev != nil {
			ref := make([]byte, len(keyPool)+1)
			for k := -1; k < len(keyPool); k++ {
				ref[k+1] = '0'
				f, err := psatoken.DecodeEvidenceFromCOSE(append([]byte{}, a.msg...))
				if err == nil && f.Verify(pubKey(k)) == nil {
					ref[k+1] = '1'
				}
			}
			refVerify[i] = string(ref)
			if o.Kind == "ev-decoded" && pa["verify"] != refVerify[i] {
				res.violate("C18", "verify-verdict-depends-on-history", "", -1, "Verify verdicts on a decoded Evidence differ from those of a fresh Evidence per key:\n   fresh: %s\n   got:   %s", refVerify[i], pa["verify"])
			}
		}
	}
	type heldPtr struct {
		p    *[]byte
		snap []byte
		at   int
		what string
	}
	var heldPtrs []heldPtr
	checkAll := func(step int, what string) {
		for _, h := range heldPtrs {
			if h.p != nil && !bytes.Equal(*h.p, h.snap) {
				res.violate("C18", "earlier-result-changed", "", step, "the value behind the pointer returned by %s at step %d changed after a later read-side call (%s)\n was: %x\n now: %x", h.what, h.at, what, h.snap, *h.p)
				heldPtrs = nil
				break
			}
		}
		for _, h := range heldEnc {
			if !bytes.Equal(h.ret, h.snap) {
				res.violate("C18", "earlier-encoding-changed", "", step, "bytes returned by %s at step %d were modified by a later read-side call (%s): encoding results must be stable\n was: %x\n now: %x", h.what, h.at, what, h.snap, h.ret)
				heldEnc = nil
				break
			}
		}
		for j := range A {
			if A[j] == nil {
				continue
			}
			res.Evals++
			p := observe(A[j].cur(), A[j].ev, obsOrders[(step+j)%len(obsOrders)], (step+j)%2 == 1)
			if d := diffParts(obs0[j], p); d != "" {
				res.violate("C18", "observation-changed", "", step, "after %s, object %d (%s) is observably different: %s", what, j, cfg.Objs[j].Kind, d)
			}
		}
	}
	reads, scribbles := 0, 0
	for i, op := range t.Ops {
		res.OpsRun++
		res.Steps++
		if op.A < 0 || op.A >= n || A[op.A] == nil {
			continue
		}
		l := A[op.A]
		switch op.K {
		case "read":
			r1 := readCall(l, op.S, op.C)
			r2 := readCall(l, op.S, op.C)
			res.Evals++
			res.logf("%d read obj=%d %s key=%d -> %s", i, op.A, op.S, op.C, hash8(r1))
			if r1 == "n/a" {
				break
			}
			reads++
			shape += op.S + ","
			if r1 != r2 {
				res.violate("C18", "repeated-call-differs", "", i, "%s on object %d gave two different results back to back:\n   1: %s\n   2: %s", op.S, op.A, r1, r2)
			}
			if l.ev != nil && l.ev.Claims != nil && (op.S == "ev.instid" || op.S == "ev.implid") {
				func() {
					defer func() { _ = recover() }()
					var p *[]byte
					if op.S == "ev.instid" {
						p = l.ev.GetInstanceID()
					} else {
						p = l.ev.GetImplementationID()
					}
					if p != nil {
						heldPtrs = append(heldPtrs, heldPtr{p: p, snap: append([]byte{}, (*p)...), at: i, what: op.S})
						res.Probes["held_pointers"]++
					}
				}()
			}
			if l.claims != nil && (op.S == "ser.cbor" || op.S == "ser.json") {
				// keep the very slice the embedding-aware serialiser (or the claims' own marshaler, which
				// is what extension profiles delegate to it) hands out
				func() {
					defer func() { _ = recover() }()
					var b []byte
					var err error
					switch {
					case op.S == "ser.cbor" && i%2 == 0:
						b, err = encoding.SerializeStructToCBOR(xem, l.claims)
					case op.S == "ser.cbor":
						if m, ok := l.claims.(interface{ MarshalCBOR() ([]byte, error) }); ok {
							b, err = m.MarshalCBOR()
						}
					case i%2 == 0:
						b, err = encoding.SerializeStructToJSON(l.claims)
					default:
						if m, ok := l.claims.(interface{ MarshalJSON() ([]byte, error) }); ok {
							b, err = m.MarshalJSON()
						}
					}
					if err == nil && len(b) > 0 {
						heldEnc = append(heldEnc, heldBytes{ret: b, snap: append([]byte{}, b...), at: i, what: op.S + " (direct)"})
						res.Probes["held_encodings"]++
					}
				}()
			}
			if l.claims != nil && (op.S == "enc.cbor" || op.S == "enc.json" || op.S == "venc.cbor" || op.S == "venc.json") {
				// keep the very slice an encoder hands out
				func() {
					defer func() { _ = recover() }()
					var b []byte
					var err error
					switch op.S {
					case "enc.cbor":
						b, err = psatoken.EncodeClaimsToCBOR(l.claims)
					case "enc.json":
						b, err = psatoken.EncodeClaimsToJSON(l.claims)
					case "venc.cbor":
						b, err = psatoken.ValidateAndEncodeClaimsToCBOR(l.claims)
					default:
						b, err = psatoken.ValidateAndEncodeClaimsToJSON(l.claims)
					}
					if err == nil && len(b) > 0 {
						heldEnc = append(heldEnc, heldBytes{ret: b, snap: append([]byte{}, b...), at: i, what: op.S})
						res.Probes["held_encodings"]++
					}
				}()
			}
			key := fmt.Sprintf("%s/%d", op.S, op.C)
			if f, ok := first[op.A][key]; ok && f != r1 {
				res.violate("C18", "repeated-call-differs", "", i, "%s on object %d no longer gives what it gave earlier in the history:\n   then: %s\n   now:  %s", op.S, op.A, f, r1)
			} else if !ok {
				first[op.A][key] = r1
			}
			if op.S == "verify" && refVerify[op.A] != "" && cfg.Objs[op.A].Kind == "ev-decoded" {
				want := "err"
				if op.C+1 >= 0 && op.C+1 < len(refVerify[op.A]) && refVerify[op.A][op.C+1] == '1' {
					want = "ok"
				}
				if r1 != want {
					res.violate("C18", "verify-verdict-depends-on-history", "", i, "Verify(key %d) on object %d says %s, a fresh Evidence decoded from the same bytes says %s", op.C, op.A, r1, want)
				}
			}
			checkAll(i, "read-side call "+op.S)
		case "virgin":
			v := cfg.Objs[op.A].materialise(&cfg)
			if v == nil {
				break
			}
			r1 := readCall(v, op.S, op.C)
			res.Evals++
			if r1 == "n/a" {
				break
			}
			reads++
			// the component the call itself produces is observed last
			p := observe(v.cur(), v.ev, obsOrders[(i+1)%len(obsOrders)], i%2 == 0)
			if d := diffParts(obs0[op.A], p); d != "" {
				res.violate("C18", "first-call-changes-object", "", i, "%s as the very first call on a fresh object (%s) leaves it observably different from its twin: %s", op.S, cfg.Objs[op.A].Kind, d)
			}
			res.Probes["virgin_call"]++
		case "scribble":
			if l.buf == nil {
				break
			}
			switch op.B % 4 {
			case 0:
				for k := range l.buf {
					l.buf[k] = 0
				}
			case 1:
				for k := range l.buf {
					if len(op.X) > 0 {
						l.buf[k] ^= op.X[k%len(op.X)] | 1
					}
				}
			case 2:
				for k := range l.buf {
					l.buf[k] = 0xff
				}
			case 3:
				// the channel reuses the buffer for the next delivery
				var next []byte
				if op.D >= 0 && op.D < n && A[op.D] != nil && A[op.D].msg != nil {
					next = A[op.D].msg
				} else {
					next = l.msg
				}
				for k := range l.buf {
					if len(next) > 0 {
						l.buf[k] = next[(k+1)%len(next)]
					}
				}
			}
			scribbles++
			res.Faults[op.F]++
			res.logf("%d scribble obj=%d mode=%d", i, op.A, op.B%4)
			checkAll(i, "overwriting the input buffer of object "+fmt.Sprint(op.A))
		}
	}
	// Last of all (it is destructive): the object that went through the history
	// and a fresh twin must react identically to being re-populated from a valid
	// token of their own profile - a difference means a read-side call left
	// something behind that the getters do not show.
	for j := range A {
		if A[j] == nil || A[j].claims == nil {
			continue
		}
		fresh := cfg.Objs[j].materialise(&cfg)
		if fresh == nil || fresh.claims == nil {
			continue
		}
		fam := "p2"
		switch A[j].claims.(type) {
		case *psatoken.P1Claims:
			fam = "p1"
		case *XP1Claims:
			fam = "xp1"
		case *XP2Claims:
			fam = "xp2"
		case *XWClaims:
			fam = "xw"
		case *XKClaims:
			fam = "xk"
		}
		repop := func(c psatoken.IClaims) string {
			return safely(func() string {
				d := genValidClaims(NewRng(uint64(0x18e+j)), fam)
				if len(d.Sw) == 0 {
					d.Sw = []SwDesc{baseComp}
					d.NoMeas = nil
				}
				src, err := d.build()
				if err != nil {
					return "unbuildable"
				}
				tok, err := psatoken.EncodeClaimsToCBOR(src)
				if err != nil {
					return "unencodable"
				}
				u, ok := c.(interface{ UnmarshalCBOR([]byte) error })
				if !ok {
					return "n/a"
				}
				if err := u.UnmarshalCBOR(tok); err != nil {
					return "err"
				}
				return fullObs(c)
			})
		}
		res.Evals++
		if a, b := repop(A[j].claims), repop(fresh.claims); a != b {
			res.violate("C18", "history-left-hidden-state", "", len(t.Ops), "object %d (%s) after its read-only history and a fresh twin react differently to being re-populated from the same valid token:\n history: %s\n fresh:   %s", j, cfg.Objs[j].Kind, a, b)
		}
		res.Probes["repopulate_compared"]++
	}
	res.NonTrivial = reads > 0 && res.Probes["invalid_object"] > 0 && res.Probes["valid_object"] > 0
	res.Shape = hash64(shape, fmt.Sprint(scribbles > 0))
	return res
}

func hash8(s string) string { return fmt.Sprintf("%016x", hash64(s)) }

func (obsWorld) Simplify(o Op) []Op {
	var out []Op
	if len(o.X) > 1 {
		c := o
		c.X = o.X[:1]
		out = append(out, c)
	}
	return out
}
