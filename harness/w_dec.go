package main

import (
	"encoding/json"
	"fmt"
	"os"
	"os/exec"
	"regexp"
	"runtime"
	"strings"
	"sync"
	"syscall"
	"time"

	"bytes"

	psatoken "github.com/veraison/psatoken"
	"github.com/veraison/psatoken/encoding"
	"github.com/veraison/psatoken/zzverif/simrt"
)

// W-DEC: the receiving side of the attester -> channel -> verifier -> relying
// party pipeline. Real messages of every serialisation (COSE tokens, bare CBOR
// claims, JSON claims, extension-profile claims, component lists, and structs
// for the embedding-aware helpers) are damaged in flight - or structurally
// mutated and re-signed by a Byzantine attester - and every delivered byte
// string is handed to EVERY decoding entry point; what decodes is then
// validated, read, re-encoded and verified. Serves C05 (the receiver never
// panics) and C06 (allocation, step and wall budget per decode call).
//
// Each trace executes in its own child process (address-space cap for C06; a
// fatal runtime error such as a stack overflow cannot be recovered in-process).

type DecMsg struct {
	Kind   string `json:"kind"` // cose | cbor | json | swcbor | swjson | shapecbor | shapejson
	Claims int    `json:"claims"`
	Signer int    `json:"signer,omitempty"`
	Shape  int    `json:"shape,omitempty"`
	Big    int    `json:"big,omitempty"` // pad the VSI / a text field to this many bytes
}

type DecCfg struct {
	Claims  []ClaimsDesc `json:"claims"`
	Signers []SignerSpec `json:"signers"`
	Msgs    []DecMsg     `json:"msgs"`
}

type decWorld struct{}

func (decWorld) Name() string { return "W-DEC" }

var decFaultKinds = []string{"net.bitflip", "net.bytesub", "net.multi", "net.truncate", "net.extend", "net.leninflate", "net.concat",
	"byz.tree", "byz.tree", "json.member", "json.member", "net.nest", "net.pad", "net.hdr", "net.splice", "byz.members", "byz.profile", "byz.elements", "byz.retype"}

var decMsgKinds = []string{"cose", "cose", "cbor", "cbor", "json", "json", "swcbor", "swjson", "shapecbor", "shapejson"}

// prelude sweeps: (message kind, profile family, sweep kind)
type decPrelude struct {
	kind, prof, sweep string
	shape             int // struct shape for shape messages (-1: derived from the run index)
}

var decPreludes = func() []decPrelude {
	var out []decPrelude
	for _, k := range []string{"cose", "cbor", "json", "shapecbor", "shapejson", "swcbor"} {
		for _, p := range []string{"p1", "p2", "xp2"} {
			out = append(out, decPrelude{k, p, "truncsweep", -1})
			if p == "p1" && (k == "json" || k == "shapejson" || k == "cbor" || k == "shapecbor") {
				out = append(out, decPrelude{k, "xp2", "floodsweep", -1})
			}
			if p == "p1" && (k == "json" || k == "cbor") {
				out = append(out, decPrelude{k, "p1", "listflood", -1}, decPrelude{k, "p2", "listflood", -1})
			}
			if k != "json" && k != "shapejson" {
				out = append(out, decPrelude{k, p, "headsweep", -1})
			}
		}
	}
	// every member of a JSON message replaced by each of a handful of literals
	for _, p := range []string{"p1", "p2", "xp2", "xw"} {
		out = append(out, decPrelude{"json", p, "literalsweep", -1})
	}
	out = append(out, decPrelude{"swjson", "p2", "literalsweep", -1})
	// every one- and (a slice of the) two-byte inputs; every message behind tags of every width
	out = append(out, decPrelude{"cbor", "p2", "tinysweep", -1})
	for _, k := range []string{"cose", "cbor", "shapecbor"} {
		out = append(out, decPrelude{k, "p2", "tagsweep", -1})
	}
	out = append(out, decPrelude{"cose", "p1", "tagsweep", -1})
	// a tag of every width in front of every node of the claims tree
	out = append(out, decPrelude{"cbor", "p2", "nodetagsweep", -1}, decPrelude{"cbor", "xp2", "nodetagsweep", -1})
	// a sub-module chain of every depth the CBOR decoder admits
	out = append(out, decPrelude{"shapecbor", "p2", "depthsweep", 9}, decPrelude{"shapejson", "p2", "depthsweep", 9})
	for sh := 0; sh < nShapes; sh++ {
		out = append(out, decPrelude{"shapejson", "p2", "literalsweep", sh})
	}
	return out
}()

func (decWorld) Gen(prop, tier string, idx int, r *Rng) *Trace {
	var cfg DecCfg
	if idx < len(decPreludes) {
		p := decPreludes[idx]
		cfg.Claims = []ClaimsDesc{genValidClaims(r, p.prof)}
		cfg.Signers = []SignerSpec{{Alg: "ES256", Key: keysForAlg("ES256")[0]}}
		cfg.Msgs = []DecMsg{{Kind: p.kind, Claims: 0, Shape: idx}}
		if p.shape >= 0 {
			cfg.Msgs[0].Shape = p.shape
		}
		stride := 1
		if tier == "quick" {
			stride = 5
		}
		if p.sweep == "listflood" {
			// a claims-set with a long component list
			for len(cfg.Claims[0].Sw) < 150 {
				cfg.Claims[0].Sw = append(cfg.Claims[0].Sw, genSw(r))
			}
			cfg.Claims[0].NoMeas = nil
			cfg.Claims[0].SwNil = false
		}
		sweepKind := p.sweep
		if sweepKind == "listflood" {
			sweepKind = "floodsweep"
		}
		ops := []Op{{K: "deliver", T: "m0"}, {K: sweepKind, T: "m0", B: stride, A: idx % stride, C: map[string]int{"listflood": 120}[p.sweep]}}
		cj, _ := json.Marshal(cfg)
		return &Trace{World: "W-DEC", Cfg: cj, Ops: ops}
	}
	fams := []string{"p1", "p2", "p1", "p2", "xp2", "xp1", "xw", "xk", "xc"}
	nClaims := r.Range(1, 3)
	for i := 0; i < nClaims; i++ {
		pf := fams[r.Intn(len(fams))]
		if r.Chance(2, 3) {
			cfg.Claims = append(cfg.Claims, genValidClaims(r, pf))
		} else {
			cfg.Claims = append(cfg.Claims, genInvalidClaims(r, pf))
		}
	}
	cfg.Signers = []SignerSpec{genSignerSpec(r, true)}
	nMsg := r.Range(1, 4)
	for i := 0; i < nMsg; i++ {
		m := DecMsg{Kind: decMsgKinds[r.Intn(len(decMsgKinds))], Claims: r.Intn(nClaims), Shape: r.Intn(nShapes)}
		if prop == "C06" && r.Chance(1, 4) {
			m.Big = []int{1000, 8000, 30000, 60000}[r.Intn(4)]
		}
		cfg.Msgs = append(cfg.Msgs, m)
	}
	kinds := decFaultKinds
	if r.Chance(1, 3) {
		var sub []string
		for _, k := range decFaultKinds {
			if r.Chance(1, 2) {
				sub = append(sub, k)
			}
		}
		if len(sub) > 0 {
			kinds = sub
		}
	}
	var ops []Op
	next := nMsg
	for m := 0; m < nMsg; m++ {
		base := fmt.Sprintf("m%d", m)
		ops = append(ops, Op{K: "deliver", T: base})
		nCopies := r.Range(2, 8)
		for c := 0; c < nCopies; c++ {
			cl := fmt.Sprintf("m%d", next)
			next++
			ops = append(ops, Op{K: "copy", S: cl, T: base})
			nf := r.Range(1, 3)
			for f := 0; f < nf; f++ {
				var fo Op
				k := kinds[r.Intn(len(kinds))]
				switch k {
				case "byz.retype":
					fo = Op{K: "fault", F: k, A: r.Intn(1 << 14), B: r.Intn(retypeVariants)}
					if r.Chance(1, 2) {
						fo.B = retypeVariants - 1 // a tag in front of a node
					}
				case "byz.tree", "json.member":
					fo = Op{K: "fault", F: k, A: r.Intn(96), B: r.Intn(60)}
					if r.Chance(1, 3) {
						fo.A = 0 // the root of the tree
					}
				case "net.nest":
					fo = Op{K: "fault", F: k, A: []int{10, 100, 1000, 5000, 20000, 100000}[r.Intn(6)], B: r.Intn(8), C: r.Intn(64)}
				case "net.pad":
					fo = Op{K: "fault", F: k, A: []int{100, 5000, 60000}[r.Intn(3)], B: r.Intn(256), C: r.Intn(64)}
				case "byz.members":
					fo = Op{K: "fault", F: k, A: []int{30, 300, 3000, 12000}[r.Intn(4)]}
				case "byz.profile":
					fo = Op{K: "fault", F: k, A: r.Intn(20)}
				case "byz.elements":
					fo = Op{K: "fault", F: k, A: r.Intn(8), B: []int{20, 500, 3000, 20000, 60000}[r.Intn(5)], C: r.Intn(4)}
				default:
					fo = genNetFault(r, []string{k}, nMsg)
				}
				fo.T = cl
				if fo.F == "net.splice" || fo.F == "net.concat" {
					fo.S = fmt.Sprintf("m%d", r.Intn(nMsg))
				}
				// inner = damage the signed payload and let the Byzantine attester re-sign
				if r.Chance(1, 2) {
					fo.D = 1
				}
				ops = append(ops, fo)
			}
			ops = append(ops, Op{K: "deliver", T: cl})
		}
	}
	cj, _ := json.Marshal(cfg)
	return &Trace{World: "W-DEC", Cfg: cj, Ops: ops}
}

// ---- messages

type decSlot struct {
	kind   string
	inner  []byte // cose: the payload that was signed
	cur    []byte
	signer int
	faults int
}

func padDesc(d ClaimsDesc, n int) ClaimsDesc {
	if n <= 0 {
		return d
	}
	v := strings.Repeat("v", n)
	d.VSI = &v
	return d
}

func (m *DecMsg) build(cfg *DecCfg) (out *decSlot) {
	defer func() {
		if r := recover(); r != nil {
			out = nil // the sender could not even produce the message; nothing to deliver
		}
	}()
	if m.Claims < 0 || m.Claims >= len(cfg.Claims) {
		return nil
	}
	d := padDesc(cfg.Claims[m.Claims], m.Big)
	s := &decSlot{kind: m.Kind, signer: m.Signer}
	var err error
	switch m.Kind {
	case "cose", "cbor", "json":
		c, berr := d.build()
		if berr != nil {
			return nil
		}
		switch m.Kind {
		case "json":
			s.cur, err = psatoken.EncodeClaimsToJSON(c)
		default:
			s.cur, err = psatoken.EncodeClaimsToCBOR(c)
			if err == nil && m.Kind == "cose" {
				s.inner = s.cur
				if m.Signer < 0 || m.Signer >= len(cfg.Signers) {
					return nil
				}
				s.cur, err = directSign(cfg.Signers[m.Signer], s.inner)
			}
		}
	case "swcbor":
		sw := d.Sw
		if len(sw) == 0 {
			sw = []SwDesc{baseComp}
		}
		s.cur = encodeSwList(sw)
	case "swjson":
		sw := d.Sw
		if len(sw) == 0 {
			sw = []SwDesc{baseComp}
		}
		s.cur, err = json.Marshal(swToIface(sw))
	case "shapecbor", "shapejson":
		txt := "t"
		if d.VSI != nil {
			txt = *d.VSI
		}
		var blob []byte
		if d.ImplID != nil {
			blob = *d.ImplID
		}
		a := int64(7)
		if d.ClientID != nil {
			a = int64(*d.ClientID)
		}
		sh := filledShape(m.Shape, a, txt, blob)
		if m.Kind == "shapecbor" {
			s.cur, err = encoding.SerializeStructToCBOR(xem, sh)
		} else {
			s.cur, err = encoding.SerializeStructToJSON(sh)
		}
	default:
		return nil
	}
	if err != nil || s.cur == nil {
		return nil
	}
	return s
}

func isJSONKind(k string) bool { return k == "json" || k == "swjson" || k == "shapejson" }

// applyDecFault damages a slot. inner => the signed payload is damaged and
// the message re-signed (COSE only; otherwise same as outer).
func applyDecFault(s *decSlot, op Op, donor []byte, cfg *DecCfg) bool {
	target := s.cur
	resign := false
	if op.D == 1 && s.kind == "cose" && s.inner != nil {
		target = s.inner
		resign = true
	}
	var nb []byte
	fired := false
	switch op.F {
	case "byz.tree":
		if isJSONKind(s.kind) {
			nb, fired = applyJSONFault(target, op.A, op.B)
		} else {
			nb, fired = applyTreeFault(target, op.A, op.B)
		}
	case "json.member":
		if isJSONKind(s.kind) {
			nb, fired = applyJSONFault(target, op.A, op.B)
		} else {
			nb, fired = applyTreeFault(target, op.A, op.B)
		}
	case "byz.retype":
		if isJSONKind(s.kind) {
			nb, fired = applyJSONFault(target, op.A, len(jsonSubst)+3) // every member repeated
		} else {
			nb, fired = applyRetypeFault(target, op.A, op.B)
		}
	case "net.nest":
		depth := op.A
		if depth > 200000 {
			depth = 200000
		}
		var nest []byte
		if isJSONKind(s.kind) && abs(op.B)%8 >= 6 {
			// well-formed, deep AND wide: d levels of brackets around k scalars (d < encoding/json's limit)
			d := depth
			if d > 9000 {
				d = 9000
			}
			k := []int{10, 1000, 8000, 20000}[abs(op.C)%4]
			for 2*d+2*k > 64000 {
				k /= 2
			}
			var sb strings.Builder
			if abs(op.B)%8 == 6 {
				sb.WriteString(strings.Repeat("[", d))
				sb.WriteString(strings.TrimSuffix(strings.Repeat("0,", k), ","))
				sb.WriteString(strings.Repeat("]", d))
			} else {
				sb.WriteString(strings.Repeat(`{"a":`, d/3+1))
				sb.WriteString("[" + strings.TrimSuffix(strings.Repeat("0,", k), ",") + "]")
				sb.WriteString(strings.Repeat("}", d/3+1))
			}
			nest = []byte(sb.String())
			root, ok := parseJSONTree(target)
			if !ok || root.kind != 'o' || len(root.kids) == 0 {
				nb, fired = nest, true
				break
			}
			root.kids[abs(op.C)%len(root.kids)] = &jnode{kind: 'v', raw: string(nest)}
			var out bytes.Buffer
			root.write(&out)
			nb, fired = out.Bytes(), true
			break
		}
		if isJSONKind(s.kind) {
			open := []string{"[", `{"a":`, "[", "[[", `{"psa-nonce":`, `[{"x":`}[abs(op.B)%6]
			nest = []byte(strings.Repeat(open, depth))
			if op.B%2 == 0 {
				nest = append(nest, '1')
			}
			// substitute one node of the document by the nest
			root, ok := parseJSONTree(target)
			if !ok {
				nb, fired = nest, true
				break
			}
			var nodes []*jnode
			root.all(&nodes)
			n := nodes[abs(op.C)%len(nodes)]
			*n = jnode{kind: 'v', raw: string(nest)}
			var sb bytes.Buffer
			root.write(&sb)
			nb, fired = sb.Bytes(), true
		} else if abs(op.B)%8 >= 6 {
			// byte string inside byte string inside ...: every level carries a length,
			// so the chain is built from the inside out, around the whole message
			// (B%8 == 7: each level also tagged 24, "encoded CBOR data item")
			if depth > 21000 {
				depth = 21000
			}
			inner := append([]byte{}, target...)
			for l := 0; l < depth && len(inner) < 65000; l++ {
				w := cborBstr(inner)
				if abs(op.B)%8 == 7 {
					w = append([]byte{0xd8, 0x18}, w...)
				}
				inner = w
			}
			nb, fired = inner, true
		} else {
			unit := [][]byte{{0x81}, {0xa1, 0x00}, {0xc1}, {0x9f}, {0xbf, 0x00}, {0xd8, 0x18, 0x81}}[abs(op.B)%6]
			nest = bytes.Repeat(unit, depth)
			nest = append(nest, 0x00)
			spans := itemSpans(target)
			if len(spans) == 0 {
				nb, fired = nest, true
				break
			}
			sp := spans[abs(op.C)%len(spans)]
			nb = append(append(append([]byte{}, target[:sp[0]]...), nest...), target[sp[1]:]...)
			fired = true
		}
	case "byz.profile":
		nb, fired = applyProfileFault(target, op.A, isJSONKind(s.kind))
	case "byz.elements":
		n := op.B
		if n > 60000 {
			n = 60000
		}
		nb, fired = applyArrayFlood(target, op.A, n, op.C, isJSONKind(s.kind))
	case "byz.members":
		n := op.A
		if n > 13000 {
			n = 13000
		}
		nb, fired = applyManyMembers(target, n, isJSONKind(s.kind))
	case "net.pad":
		n := op.A
		if n > 65536 {
			n = 65536
		}
		pad := bytes.Repeat([]byte{byte(op.B)}, n)
		at := 0
		if len(target) > 0 {
			at = abs(op.C) % (len(target) + 1)
		}
		nb = append(append(append([]byte{}, target[:at]...), pad...), target[at:]...)
		fired = n > 0
	default:
		nb, fired = applyNetFault(target, op, donor)
	}
	if !fired {
		return false
	}
	if len(nb) > 1<<20 {
		nb = nb[:1<<20]
	}
	if resign {
		s.inner = nb
		if s.signer < 0 || s.signer >= len(cfg.Signers) {
			return false
		}
		tok, err := directSign(cfg.Signers[s.signer], nb)
		if err != nil {
			return false
		}
		s.cur = tok
	} else {
		s.cur = nb
	}
	s.faults++
	return true
}

// ---- the receiving actor

var panicDigits = regexp.MustCompile(`[0-9]+|0x[0-9a-f]+`)

func panicSig(entry string, r any) string {
	msg := fmt.Sprint(r)
	if len(msg) > 90 {
		msg = msg[:90]
	}
	return entry + ": " + panicDigits.ReplaceAllString(msg, "N")
}

type decBudget struct {
	on        bool
	maxAlloc  uint64
	maxSteps  uint64
	maxWallMs int64
	calls     int
}

var sixKeys []int

func verifyKeys() []int {
	if sixKeys != nil {
		return sixKeys
	}
	seen := map[string]bool{}
	sixKeys = []int{-1}
	for i, k := range keyPool {
		if !seen[k.Kind] {
			seen[k.Kind] = true
			sixKeys = append(sixKeys, i)
		}
	}
	return sixKeys
}

func postClaims(c psatoken.IClaims) {
	if c == nil {
		return
	}
	_ = c.Validate()
	_, _ = c.GetProfile()
	_, _ = c.GetClientID()
	_, _ = c.GetSecurityLifeCycle()
	_, _ = c.GetImplID()
	_, _ = c.GetBootSeed()
	_, _ = c.GetCertificationReference()
	scs, _ := c.GetSoftwareComponents()
	for _, sc := range scs {
		if sc == nil {
			continue
		}
		_ = sc.Validate()
		_, _ = sc.GetMeasurementType()
		_, _ = sc.GetMeasurementValue()
		_, _ = sc.GetVersion()
		_, _ = sc.GetSignerID()
		_, _ = sc.GetMeasurementDesc()
	}
	_, _ = c.GetNonce()
	_, _ = c.GetInstID()
	_, _ = c.GetVSI()
	if x, ok := c.(extraGetter); ok {
		_, _ = x.GetExtra()
	}
	_, _ = psatoken.EncodeClaimsToCBOR(c)
	_, _ = psatoken.EncodeClaimsToJSON(c)
	_, _ = psatoken.ValidateAndEncodeClaimsToCBOR(c)
	_, _ = psatoken.ValidateAndEncodeClaimsToJSON(c)
}

func postEvidence(e *psatoken.Evidence) {
	if e == nil {
		return
	}
	postClaims(e.Claims)
	for _, k := range verifyKeys() {
		_ = e.Verify(pubKey(k))
	}
	_, _ = e.MarshalJSON()
	if e.Claims != nil {
		_ = e.GetInstanceID()
		_ = e.GetImplementationID()
	}
}

func postContainer(c *psatoken.SwComponents[*psatoken.SwComponent]) {
	_ = c.Validate()
	vs, _ := c.Values()
	for _, v := range vs {
		if v != nil {
			_ = v.Validate()
		}
	}
	_ = c.IsEmpty()
	_, _ = c.MarshalCBOR()
	_, _ = c.MarshalJSON()
}

type decEntry struct {
	name string
	run  func(b []byte, st *decState) (post func(), err error)
}

type decState struct {
	reusedEv   *psatoken.Evidence
	reusedP1   *psatoken.P1Claims
	reusedP2   *psatoken.P2Claims
	reusedCont *psatoken.SwComponents[*psatoken.SwComponent]
}

var decEntries = []decEntry{
	{"DecodeEvidenceFromCOSE", func(b []byte, st *decState) (func(), error) {
		e, err := psatoken.DecodeEvidenceFromCOSE(b)
		return func() { postEvidence(e) }, err
	}},
	{"DecodeAndValidateEvidenceFromCOSE", func(b []byte, st *decState) (func(), error) {
		e, err := psatoken.DecodeAndValidateEvidenceFromCOSE(b)
		return func() { postEvidence(e) }, err
	}},
	{"Evidence.UnmarshalCOSE(reused)", func(b []byte, st *decState) (func(), error) {
		err := st.reusedEv.UnmarshalCOSE(b)
		return func() { postEvidence(st.reusedEv) }, err
	}},
	{"DecodeClaimsFromCBOR", func(b []byte, st *decState) (func(), error) {
		c, err := psatoken.DecodeClaimsFromCBOR(b)
		return func() { postClaims(c) }, err
	}},
	{"DecodeAndValidateClaimsFromCBOR", func(b []byte, st *decState) (func(), error) {
		c, err := psatoken.DecodeAndValidateClaimsFromCBOR(b)
		return func() { postClaims(c) }, err
	}},
	{"DecodeClaimsFromJSON", func(b []byte, st *decState) (func(), error) {
		c, err := psatoken.DecodeClaimsFromJSON(b)
		return func() { postClaims(c) }, err
	}},
	{"DecodeAndValidateClaimsFromJSON", func(b []byte, st *decState) (func(), error) {
		c, err := psatoken.DecodeAndValidateClaimsFromJSON(b)
		return func() { postClaims(c) }, err
	}},
	{"DecodeUnvalidatedJSONClaims (deprecated)", func(b []byte, st *decState) (func(), error) {
		c, err := psatoken.DecodeUnvalidatedJSONClaims(b) //nolint:staticcheck
		return func() { postClaims(c) }, err
	}},
	{"DecodeJSONClaims (deprecated)", func(b []byte, st *decState) (func(), error) {
		c, err := psatoken.DecodeJSONClaims(b) //nolint:staticcheck
		return func() { postClaims(c) }, err
	}},
	{"P1Claims.UnmarshalCBOR", func(b []byte, st *decState) (func(), error) {
		c := &psatoken.P1Claims{CanonicalProfile: psatoken.Profile1Name}
		err := c.UnmarshalCBOR(b)
		return func() { postClaims(c) }, err
	}},
	{"P1Claims.UnmarshalJSON", func(b []byte, st *decState) (func(), error) {
		c := &psatoken.P1Claims{CanonicalProfile: psatoken.Profile1Name}
		err := c.UnmarshalJSON(b)
		return func() { postClaims(c) }, err
	}},
	{"P2Claims.UnmarshalCBOR", func(b []byte, st *decState) (func(), error) {
		c := &psatoken.P2Claims{CanonicalProfile: psatoken.Profile2Name}
		err := c.UnmarshalCBOR(b)
		return func() { postClaims(c) }, err
	}},
	{"P2Claims.UnmarshalJSON", func(b []byte, st *decState) (func(), error) {
		c := &psatoken.P2Claims{CanonicalProfile: psatoken.Profile2Name}
		err := c.UnmarshalJSON(b)
		return func() { postClaims(c) }, err
	}},
	// long-lived targets refilled for every incoming message
	{"P1Claims.UnmarshalCBOR(reused)", func(b []byte, st *decState) (func(), error) {
		err := st.reusedP1.UnmarshalCBOR(b)
		return func() { postClaims(st.reusedP1) }, err
	}},
	{"P1Claims.UnmarshalJSON(reused)", func(b []byte, st *decState) (func(), error) {
		err := st.reusedP1.UnmarshalJSON(b)
		return func() { postClaims(st.reusedP1) }, err
	}},
	{"P2Claims.UnmarshalCBOR(reused)", func(b []byte, st *decState) (func(), error) {
		err := st.reusedP2.UnmarshalCBOR(b)
		return func() { postClaims(st.reusedP2) }, err
	}},
	{"P2Claims.UnmarshalJSON(reused)", func(b []byte, st *decState) (func(), error) {
		err := st.reusedP2.UnmarshalJSON(b)
		return func() { postClaims(st.reusedP2) }, err
	}},
	{"SwComponents.UnmarshalCBOR(reused)", func(b []byte, st *decState) (func(), error) {
		err := st.reusedCont.UnmarshalCBOR(b)
		return func() { postContainer(st.reusedCont) }, err
	}},
	{"SwComponents.UnmarshalJSON(reused)", func(b []byte, st *decState) (func(), error) {
		err := st.reusedCont.UnmarshalJSON(b)
		return func() { postContainer(st.reusedCont) }, err
	}},
	{"NewClaims(P1).UnmarshalCBOR", func(b []byte, st *decState) (func(), error) {
		c, _ := psatoken.NewClaims(psatoken.Profile1Name)
		err := c.(*psatoken.P1Claims).UnmarshalCBOR(b)
		return func() { postClaims(c) }, err
	}},
	{"NewClaims(P2).UnmarshalCBOR", func(b []byte, st *decState) (func(), error) {
		c, _ := psatoken.NewClaims(psatoken.Profile2Name)
		err := c.(*psatoken.P2Claims).UnmarshalCBOR(b)
		return func() { postClaims(c) }, err
	}},
	{"NewClaims(P2).UnmarshalJSON", func(b []byte, st *decState) (func(), error) {
		c, _ := psatoken.NewClaims(psatoken.Profile2Name)
		err := c.(*psatoken.P2Claims).UnmarshalJSON(b)
		return func() { postClaims(c) }, err
	}},
	{"XP1Claims.UnmarshalCBOR(PopulateStructFromCBOR)", func(b []byte, st *decState) (func(), error) {
		c := newXP1(xp1Name).(*XP1Claims)
		err := c.UnmarshalCBOR(b)
		return func() { postClaims(c) }, err
	}},
	{"XP1Claims.UnmarshalJSON(PopulateStructFromJSON)", func(b []byte, st *decState) (func(), error) {
		c := newXP1(xp1Name).(*XP1Claims)
		err := c.UnmarshalJSON(b)
		return func() { postClaims(c) }, err
	}},
	{"XP2Claims.UnmarshalCBOR(PopulateStructFromCBOR)", func(b []byte, st *decState) (func(), error) {
		c := newXP2(xp2Name).(*XP2Claims)
		err := c.UnmarshalCBOR(b)
		return func() { postClaims(c) }, err
	}},
	{"XP2Claims.UnmarshalJSON(PopulateStructFromJSON)", func(b []byte, st *decState) (func(), error) {
		c := newXP2(xp2Name).(*XP2Claims)
		err := c.UnmarshalJSON(b)
		return func() { postClaims(c) }, err
	}},
	{"XWClaims.UnmarshalCBOR(PopulateStructFromCBOR)", func(b []byte, st *decState) (func(), error) {
		c := XWProfile{}.GetClaims().(*XWClaims)
		err := c.UnmarshalCBOR(b)
		return func() { postClaims(c) }, err
	}},
	{"XWClaims.UnmarshalJSON(PopulateStructFromJSON)", func(b []byte, st *decState) (func(), error) {
		c := XWProfile{}.GetClaims().(*XWClaims)
		err := c.UnmarshalJSON(b)
		return func() { postClaims(c) }, err
	}},
	{"XKClaims.UnmarshalCBOR(PopulateStructFromCBOR)", func(b []byte, st *decState) (func(), error) {
		c := XKProfile{}.GetClaims().(*XKClaims)
		err := c.UnmarshalCBOR(b)
		return func() { postClaims(c) }, err
	}},
	{"XKClaims.UnmarshalJSON(PopulateStructFromJSON)", func(b []byte, st *decState) (func(), error) {
		c := XKProfile{}.GetClaims().(*XKClaims)
		err := c.UnmarshalJSON(b)
		return func() { postClaims(c) }, err
	}},
	{"P2Claims with SwComponents[*XSwExt].UnmarshalCBOR", func(b []byte, st *decState) (func(), error) {
		c := XCProfile{}.GetClaims().(*psatoken.P2Claims)
		err := c.UnmarshalCBOR(b)
		return func() { postClaims(c) }, err
	}},
	{"P2Claims with SwComponents[*XSwExt].UnmarshalJSON", func(b []byte, st *decState) (func(), error) {
		c := XCProfile{}.GetClaims().(*psatoken.P2Claims)
		err := c.UnmarshalJSON(b)
		return func() { postClaims(c) }, err
	}},
	{"SwComponents[*XSwComponent].UnmarshalCBOR", func(b []byte, st *decState) (func(), error) {
		c := &psatoken.SwComponents[*XSwComponent]{}
		err := c.UnmarshalCBOR(b)
		return func() {
			_ = c.Validate()
			_, _ = c.Values()
			_, _ = c.MarshalCBOR()
			_, _ = c.MarshalJSON()
		}, err
	}},
	{"SwComponents.UnmarshalCBOR", func(b []byte, st *decState) (func(), error) {
		c := &psatoken.SwComponents[*psatoken.SwComponent]{}
		err := c.UnmarshalCBOR(b)
		return func() { postContainer(c) }, err
	}},
	{"SwComponents.UnmarshalJSON", func(b []byte, st *decState) (func(), error) {
		c := &psatoken.SwComponents[*psatoken.SwComponent]{}
		err := c.UnmarshalJSON(b)
		return func() { postContainer(c) }, err
	}},
}

func init() {
	for k := 0; k < nShapes; k++ {
		k := k
		decEntries = append(decEntries,
			decEntry{fmt.Sprintf("encoding.PopulateStructFromCBOR(shape%d)", k), func(b []byte, st *decState) (func(), error) {
				sh := newShape(k)
				err := encoding.PopulateStructFromCBOR(xdm, b, sh)
				return func() {
					_, _ = encoding.SerializeStructToCBOR(xem, sh)
					_, _ = encoding.SerializeStructToJSON(sh)
				}, err
			}},
			decEntry{fmt.Sprintf("encoding.PopulateStructFromJSON(shape%d)", k), func(b []byte, st *decState) (func(), error) {
				sh := newShape(k)
				err := encoding.PopulateStructFromJSON(b, sh)
				return func() {
					_, _ = encoding.SerializeStructToCBOR(xem, sh)
					_, _ = encoding.SerializeStructToJSON(sh)
				}, err
			}})
	}
}

// receive hands one delivered byte string to every entry point.
func receive(res *Result, prop string, i int, b []byte, st *decState, bud *decBudget) (decodedAny bool) {
	if prop == "C08" {
		// the three decoders and their validating twins, differentially
		inv, val := allPairGates(res, i, b)
		res.Probes["gate_invalid"] += inv
		res.Probes["gate_valid"] += val
		return inv+val > 0
	}
	c05 := prop == "C05"
	c06 := prop == "C06"
	for _, en := range decEntries {
		buf := append([]byte{}, b...)
		var post func()
		var err error
		var panicked any
		var ms0, ms1 runtime.MemStats
		var t0 time.Time
		var c0 time.Duration
		var s0 uint64
		if c06 {
			runtime.ReadMemStats(&ms0)
			s0 = simrt.Steps
			if simrt.Woven {
				simrt.StepLimit = s0 + (5_000_000+500*uint64(len(b)))*nestFactor(en.name, b)
			}
			t0 = time.Now()
			c0 = cpuTime()
		}
		func() {
			defer func() {
				if r := recover(); r != nil {
					panicked = r
				}
			}()
			post, err = en.run(buf, st)
		}()
		res.Evals++
		if c06 {
			wall := time.Since(t0)
			simrt.StepLimit = 0
			steps := simrt.Steps - s0
			runtime.ReadMemStats(&ms1)
			alloc := ms1.TotalAlloc - ms0.TotalAlloc
			bud.calls++
			if alloc > bud.maxAlloc {
				bud.maxAlloc = alloc
			}
			if steps > bud.maxSteps {
				bud.maxSteps = steps
			}
			if wall.Milliseconds() > bud.maxWallMs {
				bud.maxWallMs = wall.Milliseconds()
			}
			// (a user type that re-enters the helper at every level of nesting - shape 9 - makes ANY
			// decoder of this kind, encoding/json included, re-read the remaining input once per
			// level: the budget is the property's, per level of nesting the input really has)
			limit := (uint64(1<<20) + 1024*uint64(len(b))) * nestFactor(en.name, b)
			if alloc > limit {
				res.violate("C06", "allocation-over-budget", en.name, i, "%s allocated %d bytes for a %d-byte input (budget 1 MiB + 1 KiB/byte = %d); input starts %x", en.name, alloc, len(b), limit, head(b, 48))
			}
			if panicked == simrt.ErrStepBudget {
				res.violate("C06", "step-budget-exhausted", en.name, i, "%s executed more than 5e6 + 500 x %d library statements without returning (stand-in for the 5 s deadline); input starts %x", en.name, len(b), head(b, 48))
				panicked = nil
			}
			// the 5 s deadline, judged so that a loaded machine cannot produce a verdict: by the CPU
			// time the process consumed during the call; or, for a call that waits rather than
			// computes, by wall time scaled with the slow-down measured right now
			if cpu := cpuTime() - c0; cpu > 5*time.Second {
				res.violate("C06", "wall-deadline-exceeded", en.name, i, "%s consumed %v of CPU time (wall %v) on a %d-byte input", en.name, cpu, wall, len(b))
			} else if wall > 5*time.Second {
				if f := slowdownNow(); wall > time.Duration(float64(10*time.Second)*f) {
					res.violate("C06", "wall-deadline-exceeded", en.name, i, "%s took %v (CPU %v; the machine's current slow-down factor is %.1f) on a %d-byte input", en.name, wall, cpu, f, len(b))
				} else {
					res.Probes["slow_call_attributed_to_machine_load"]++
				}
			}
			if alloc > limit/4 {
				res.Probes["alloc_over_quarter_budget"]++
			}
		}
		if panicked != nil {
			if c05 {
				res.violate("C05", "decode-panics", panicSig(en.name, panicked), i, "%s panicked on a %d-byte input: %v\n   input: %x", en.name, len(b), panicked, head(b, 4096))
			}
			res.Probes["panic_in_decode"]++
			continue
		}
		if err != nil || post == nil {
			continue
		}
		decodedAny = true
		res.Probes["decoded_ok"]++
		if !c05 {
			continue
		}
		func() {
			defer func() {
				if r := recover(); r != nil {
					res.violate("C05", "use-after-decode-panics", panicSig(en.name+" -> validate/read/encode/verify", r), i, "what %s returned without error panics when validated / read / re-encoded / verified: %v\n   input: %x", en.name, r, head(b, 4096))
				}
			}()
			post()
		}()
	}
	return
}

func head(b []byte, n int) []byte {
	if len(b) > n {
		return b[:n]
	}
	return b
}

func (decWorld) Exec(prop string, t *Trace) *Result {
	res := newResult()
	var cfg DecCfg
	if err := json.Unmarshal(t.Cfg, &cfg); err != nil {
		res.Fatal = "bad cfg: " + err.Error()
		return res
	}
	registerSimProfiles()
	disarmCodec()
	slots := map[string]*decSlot{}
	for i := range cfg.Msgs {
		if s := cfg.Msgs[i].build(&cfg); s != nil {
			slots[fmt.Sprintf("m%d", i)] = s
		}
	}
	st := &decState{reusedEv: &psatoken.Evidence{},
		reusedP1:   &psatoken.P1Claims{CanonicalProfile: psatoken.Profile1Name, SwComponents: &psatoken.SwComponents[*psatoken.SwComponent]{}},
		reusedP2:   &psatoken.P2Claims{CanonicalProfile: psatoken.Profile2Name, SwComponents: &psatoken.SwComponents[*psatoken.SwComponent]{}},
		reusedCont: &psatoken.SwComponents[*psatoken.SwComponent]{}}
	bud := &decBudget{on: prop == "C06"}
	nontrivial := 0
	shape := ""
	journal := os.Getenv("VERIF_JOURNAL") != ""
	for i, op := range t.Ops {
		res.OpsRun++
		res.Steps++
		switch op.K {
		case "copy":
			src := slots[op.T]
			if src == nil || op.S == "" {
				break
			}
			c := *src
			c.cur = append([]byte{}, src.cur...)
			c.inner = append([]byte{}, src.inner...)
			if src.inner == nil {
				c.inner = nil
			}
			slots[op.S] = &c
		case "fault":
			s := slots[op.T]
			if s == nil {
				break
			}
			var donor []byte
			if d := slots[op.S]; d != nil {
				donor = d.cur
			}
			if applyDecFault(s, op, donor, &cfg) {
				name := op.F
				if op.D == 1 && s.kind == "cose" {
					name = "byz.resign+" + op.F
				}
				res.Faults[name]++
				shape += name + ","
			}
		case "deliver":
			s := slots[op.T]
			if s == nil {
				break
			}
			if journal {
				fmt.Fprintf(os.Stderr, "AT %d\n", i)
			}
			res.logf("%d deliver %s %d bytes faults=%d %016x", i, s.kind, len(s.cur), s.faults, hash64(string(s.cur)))
			shape += s.kind + ";"
			if receive(res, prop, i, s.cur, st, bud) && s.faults > 0 {
				nontrivial++
			}
		case "truncsweep":
			s := slots[op.T]
			if s == nil {
				break
			}
			if journal {
				fmt.Fprintf(os.Stderr, "AT %d\n", i)
			}
			for n := 0; n < len(s.cur); n++ {
				if journal && n%256 == 255 {
					fmt.Fprintf(os.Stderr, "AT %d\n", i)
				}
				if receive(res, prop, i, s.cur[:n], st, bud) {
					nontrivial++
				}
			}
			res.Faults["net.truncate"] += len(s.cur)
			res.Probes["truncsweep_offsets"] += len(s.cur)
			shape += "truncsweep" + s.kind
		case "tinysweep":
			if journal {
				fmt.Fprintf(os.Stderr, "AT %d\n", i)
			}
			n := 0
			for b0 := 0; b0 < 256; b0++ {
				if receive(res, prop, i, []byte{byte(b0)}, st, bud) {
					nontrivial++
				}
				n++
				// two-byte inputs: all of them in the thorough tier (stride 1); in the quick tier those
				// whose first byte announces a following argument, an indefinite length, or JSON
				info := b0 & 0x1f
				if op.B > 1 && !(info >= 24 || b0 == '{' || b0 == '[' || b0 == '"' || b0 == ' ') {
					continue
				}
				for b1 := 0; b1 < 256; b1++ {
					if receive(res, prop, i, []byte{byte(b0), byte(b1)}, st, bud) {
						nontrivial++
					}
					n++
				}
				if journal {
					fmt.Fprintf(os.Stderr, "AT %d\n", i)
				}
			}
			res.Faults["net.truncate"] += n
			res.Probes["tinysweep_inputs"] += n
			shape += "tinysweep"
		case "tagsweep":
			s := slots[op.T]
			if s == nil || isJSONKind(s.kind) {
				break
			}
			if journal {
				fmt.Fprintf(os.Stderr, "AT %d\n", i)
			}
			n := 0
			body := s.cur
			untagged := body
			if h, err := readHead(body, 0); err == nil && h.Major == 6 {
				untagged = body[h.HLen:]
			}
			for _, tag := range []uint64{0, 1, 2, 3, 4, 5, 16, 17, 18, 21, 22, 23, 24, 32, 33, 34, 35, 36, 61, 96, 97, 98, 111, 255, 256, 55799, 65535, 65536, 1 << 32, 1<<64 - 1} {
				for _, w := range []int{0, 1, 2, 4, 8} {
					var hd []byte
					if w == 0 {
						hd = encodeHead(6, tag)
					} else {
						if (w == 1 && tag > 0xff) || (w == 2 && tag > 0xffff) || (w == 4 && tag > 0xffffffff) {
							continue
						}
						hd = encodeHeadW(6, tag, w)
					}
					for _, inner := range [][]byte{body, untagged} {
						msg := append(append([]byte{}, hd...), inner...)
						if receive(res, prop, i, msg, st, bud) {
							nontrivial++
						}
						n++
						// ... and cut right after the tag head, and one byte into it
						if receive(res, prop, i, msg[:len(hd)], st, bud) {
							nontrivial++
						}
						if len(hd) > 1 {
							receive(res, prop, i, msg[:len(hd)-1], st, bud)
						}
					}
				}
				if journal {
					fmt.Fprintf(os.Stderr, "AT %d\n", i)
				}
			}
			res.Faults["net.hdr"] += n
			res.Probes["tagsweep_messages"] += n
			shape += "tagsweep" + s.kind
		case "nodetagsweep":
			s := slots[op.T]
			if s == nil || isJSONKind(s.kind) {
				break
			}
			var hs []cborHead
			if end, err := walkItem(s.cur, 0, 0, &hs); err != nil || end != len(s.cur) {
				break
			}
			n := 0
			for node := range hs {
				if journal {
					fmt.Fprintf(os.Stderr, "AT %d\n", i)
				}
				for tv := 0; tv < 7*5; tv++ {
					// node + len(hs) * (tag index + 7 * width index): see applyRetypeFault
					msg, ok := applyRetypeFault(s.cur, node+len(hs)*tv, retypeVariants-1)
					if !ok {
						continue
					}
					if receive(res, prop, i, msg, st, bud) {
						nontrivial++
					}
					n++
				}
			}
			res.Faults["byz.retype"] += n
			res.Probes["nodetagsweep_messages"] += n
			shape += "nodetagsweep" + s.kind
		case "depthsweep":
			s := slots[op.T]
			if s == nil {
				break
			}
			n := 0
			for depth := 1; depth <= 34; depth++ {
				if journal {
					fmt.Fprintf(os.Stderr, "AT %d\n", i)
				}
				var msg []byte
				var err error
				sh := filledShape(9, int64(depth-1), "t", nil)
				if depth > 30 {
					// deeper than the builder goes: written by hand, {9: {9: ... {1: 0}}}
					if isJSONKind(s.kind) {
						msg = []byte(strings.Repeat(`{"sub":`, depth-1) + `{"a":0}` + strings.Repeat("}", depth-1))
					} else {
						msg = append(bytes.Repeat([]byte{0xa1, 0x09}, depth-1), 0xa1, 0x01, 0x00)
					}
				} else if isJSONKind(s.kind) {
					msg, err = encoding.SerializeStructToJSON(sh)
				} else {
					msg, err = encoding.SerializeStructToCBOR(xem, sh)
				}
				if err != nil {
					continue
				}
				if receive(res, prop, i, msg, st, bud) {
					nontrivial++
				}
				n++
			}
			res.Faults["net.nest"] += n
			res.Probes["depthsweep_messages"] += n
			shape += "depthsweep" + s.kind
		case "literalsweep":
			s := slots[op.T]
			if s == nil || !isJSONKind(s.kind) {
				break
			}
			if journal {
				fmt.Fprintf(os.Stderr, "AT %d\n", i)
			}
			root, ok := parseJSONTree(s.cur)
			if !ok {
				break
			}
			var nodes []*jnode
			root.all(&nodes)
			n := 0
			for ni := 1; ni < len(nodes); ni++ {
				saved := *nodes[ni]
				deep := strings.Repeat("[", 6000) + "0" + strings.Repeat("]", 6000)
				manyNulls := "[" + strings.TrimSuffix(strings.Repeat("null,", 4000), ",") + "]"
				for _, lit := range []string{"null", "[]", "{}", `""`, "0", "true", "[null]", "1e-400", deep, manyNulls} {
					*nodes[ni] = jnode{kind: 'v', raw: lit}
					var sb bytes.Buffer
					root.write(&sb)
					n++
					if journal && n%256 == 255 {
						fmt.Fprintf(os.Stderr, "AT %d\n", i)
					}
					if receive(res, prop, i, sb.Bytes(), st, bud) {
						nontrivial++
					}
				}
				*nodes[ni] = saved
			}
			res.Faults["json.member"] += n
			res.Probes["literalsweep_substitutions"] += n
			shape += "literalsweep" + s.kind
		case "floodsweep":
			// hundreds of small, legal documents of one kind, every one with a few dozen members no
			// struct consumes and whose names never repeat: what a call allocates must not depend on
			// what earlier calls decoded
			s := slots[op.T]
			if s == nil {
				break
			}
			if journal {
				fmt.Fprintf(os.Stderr, "AT %d\n", i)
			}
			var fm0, fm1 runtime.MemStats
			runtime.GC()
			runtime.ReadMemStats(&fm0)
			floodDocs := 2000
			if op.C > 0 {
				floodDocs = op.C // fewer, larger documents (long component lists)
			}
			for n := 0; n < floodDocs; n++ {
				if journal && n%64 == 63 {
					fmt.Fprintf(os.Stderr, "AT %d\n", i)
				}
				var doc []byte
				if isJSONKind(s.kind) {
					j := bytes.LastIndexByte(s.cur, '}')
					if j < 0 {
						break
					}
					var sb bytes.Buffer
					sb.Write(s.cur[:j])
					for k := 0; k < 40; k++ {
						fmt.Fprintf(&sb, `,"f%d_%d":%d`, n, k, k)
					}
					sb.Write(s.cur[j:])
					doc = sb.Bytes()
				} else {
					h, err := readHead(s.cur, 0)
					if err != nil || h.Major != 5 || h.Info == 31 {
						break
					}
					doc = append([]byte{}, encodeHead(5, h.Arg+40)...)
					doc = append(doc, s.cur[h.HLen:]...)
					for k := 0; k < 40; k++ {
						doc = append(doc, encodeHead(0, uint64(300000+n*40+k))...)
						doc = append(doc, 0x00)
					}
				}
				if receive(res, prop, i, doc, st, bud) {
					nontrivial++
				}
			}
			// What is still live after the flood (one collection later) must not have grown with
			// the number of documents decoded: a decoder that keeps earlier inputs around uses memory
			// proportional to everything it has ever seen, not to its input.
			runtime.GC()
			runtime.ReadMemStats(&fm1)
			grown := 0
			if fm1.HeapAlloc > fm0.HeapAlloc {
				grown = int(fm1.HeapAlloc - fm0.HeapAlloc)
			}
			res.Probes["max_heap_growth_after_flood"] = grown
			// budget: 1 MiB + 8 x one document (the long-lived decode targets legitimately hold one document's worth)
			if prop == "C06" && grown > 1<<20+8*(len(s.cur)+600) {
				res.violate("C06", "memory-retained-across-calls", "", i, "after decoding %d small %s documents (about %d bytes each) and a garbage collection, the live heap is %d bytes larger than before: decoding retains memory in proportion to the inputs it has seen", floodDocs, s.kind, len(s.cur)+400, grown)
			}
			res.Faults["byz.members"] += floodDocs
			res.Probes["floodsweep_documents"] += floodDocs
			shape += "floodsweep" + s.kind
		case "headsweep":
			s := slots[op.T]
			if s == nil {
				break
			}
			if journal {
				fmt.Fprintf(os.Stderr, "AT %d\n", i)
			}
			// every head byte of the message (for a token also those of the signed payload)
			var offs []int
			var hs []cborHead
			_, _ = walkItem(s.cur, 0, 0, &hs)
			for _, h := range hs {
				offs = append(offs, h.Off)
			}
			if p, ok := splitSign1(s.cur); ok && p.PayloadIsBstr {
				base := p.PayloadEnd - len(p.Payload)
				var ihs []cborHead
				_, _ = walkItem(p.Payload, 0, 0, &ihs)
				for _, h := range ihs {
					offs = append(offs, base+h.Off)
				}
				if p.ProtIsBstr && len(p.Prot) > 0 {
					pbase := p.ProtEnd - len(p.Prot)
					var phs []cborHead
					_, _ = walkItem(p.Prot, 0, 0, &phs)
					for _, h := range phs {
						offs = append(offs, pbase+h.Off)
					}
				}
			}
			stride := op.B
			if stride < 1 {
				stride = 1
			}
			n := 0
			for _, off := range offs {
				orig := s.cur[off]
				for v := abs(op.A) % stride; v < 256; v += stride {
					if byte(v) == orig {
						continue
					}
					cur := append([]byte{}, s.cur...)
					cur[off] = byte(v)
					n++
					if journal && n%256 == 255 {
						fmt.Fprintf(os.Stderr, "AT %d\n", i)
					}
					if receive(res, prop, i, cur, st, bud) {
						nontrivial++
					}
				}
			}
			res.Faults["net.bytesub"] += n
			res.Probes["headsweep_substitutions"] += n
			shape += "headsweep" + s.kind
		}
	}
	if bud.on {
		res.Probes["max_alloc_bytes_in_one_call"] = int(bud.maxAlloc)
		res.Probes["max_steps_in_one_call"] = int(bud.maxSteps)
		res.Probes["max_wall_ms_in_one_call"] = int(bud.maxWallMs)
	}
	res.NonTrivial = nontrivial > 0
	if prop == "C08" {
		res.NonTrivial = res.Probes["gate_invalid"] > 0 && res.Probes["gate_valid"] > 0
	}
	res.Shape = hash64(shape)
	return res
}

func (decWorld) Simplify(o Op) []Op {
	var out []Op
	if o.K == "fault" && o.D == 1 {
		c := o
		c.D = 0
		out = append(out, c)
	}
	if o.K == "fault" && o.F == "byz.elements" && o.B > 20 {
		for _, b := range []int{20, 500, 3000} {
			if b < o.B {
				c := o
				c.B = b
				out = append(out, c)
			}
		}
	}
	if o.K == "fault" && (o.F == "net.nest" || o.F == "net.pad" || o.F == "byz.members") && o.A > 10 {
		for _, a := range []int{10, 100, 1000, 10000} {
			if a < o.A {
				c := o
				c.A = a
				out = append(out, c)
			}
		}
	}
	return out
}

// ---- isolation: one child process per trace

func setAddressSpaceLimit(mb int) {
	if mb <= 0 {
		return
	}
	lim := syscall.Rlimit{Cur: uint64(mb) << 20, Max: uint64(mb) << 20}
	_ = syscall.Setrlimit(syscall.RLIMIT_AS, &lim)
}

var lastAT = regexp.MustCompile(`(?m)^AT ([0-9]+)$`)

// progressWriter receives the child's stderr: it remembers the tail, the last
// journalled step and when the journal last moved.
type progressWriter struct {
	mu     sync.Mutex
	buf    bytes.Buffer
	last   time.Time
	lastAT int
}

func (w *progressWriter) Write(p []byte) (int, error) {
	w.mu.Lock()
	defer w.mu.Unlock()
	w.buf.Write(p)
	if w.buf.Len() > 1<<16 {
		b := w.buf.Bytes()
		keep := append([]byte{}, b[len(b)-(1<<15):]...)
		w.buf.Reset()
		w.buf.Write(keep)
	}
	if m := lastAT.FindAllSubmatch(p, -1); len(m) > 0 {
		fmt.Sscan(string(m[len(m)-1][1]), &w.lastAT)
		w.last = time.Now()
	}
	return len(p), nil
}

func (w *progressWriter) snapshot() (string, int, time.Time) {
	w.mu.Lock()
	defer w.mu.Unlock()
	return w.buf.String(), w.lastAT, w.last
}

func runDecIsolated(prop string, tr *Trace) *Result {
	tj, _ := json.Marshal(tr)
	cmd := exec.Command(os.Args[0], "-exec1", "-", "-prop", prop, "-aslimit", "4096")
	cmd.Env = append(os.Environ(), "VERIF_JOURNAL=1")
	cmd.Stdin = bytes.NewReader(tj)
	var so bytes.Buffer
	se := &progressWriter{last: time.Now(), lastAT: -1}
	cmd.Stdout, cmd.Stderr = &so, se
	if err := startWithRetry(cmd); err != nil {
		r := newResult()
		r.Fatal = "cannot start child: " + err.Error()
		return r
	}
	done := make(chan error, 1)
	go func() { done <- cmd.Wait() }()
	// Liveness is judged by journal progress, not by total wall time, so that a
	// loaded machine cannot turn a slow run into a verdict: the child journals
	// every delivery (and every 256 deliveries of a sweep); 60 s without any
	// progress is a decoder that does not return.
	timedOut := false
	started := time.Now()
	tick := time.NewTicker(time.Second)
	defer tick.Stop()
wait:
	for {
		select {
		case <-done:
			break wait
		case <-tick.C:
			_, _, last := se.snapshot()
			if time.Since(last) > 60*time.Second {
				timedOut = true
				_ = cmd.Process.Kill()
				<-done
				break wait
			}
			if time.Since(started) > 2*time.Hour {
				// progressing, but for ever: not a verdict about the library, trouble of the harness
				_ = cmd.Process.Kill()
				<-done
				r := newResult()
				r.Fatal = "W-DEC child still running (and journalling progress) after two hours"
				return r
			}
		}
	}
	if idx := strings.LastIndex(so.String(), "RESULT "); idx >= 0 && !timedOut {
		var w resultWire
		line := so.String()[idx+7:]
		if nl := strings.IndexByte(line, '\n'); nl >= 0 {
			line = line[:nl]
		}
		if err := json.Unmarshal([]byte(line), &w); err == nil {
			return fromWire(&w)
		}
	}
	// the child died (or hung): attribute it to the journalled delivery
	r := newResult()
	stderr, at, _ := se.snapshot()
	oom := strings.Contains(stderr, "out of memory") || strings.Contains(stderr, "cannot allocate memory")
	// the Go runtime aborts a process whose only goroutine blocks for ever
	deadlock := strings.Contains(stderr, "all goroutines are asleep")
	why := "died"
	switch {
	case deadlock:
		why = "blocked for ever inside a decode call (runtime: all goroutines are asleep - deadlock)"
	case timedOut:
		why = "made no progress for 60 s"
	case oom:
		why = "was killed by the runtime: out of memory under a 4 GiB address-space cap"
	case strings.Contains(stderr, "stack overflow") || strings.Contains(stderr, "stack exceeds"):
		why = "died of a stack overflow (fatal, not recoverable)"
	}
	if at < 0 {
		r.Fatal = "child process failed before the first delivery: " + tail(stderr, 600)
		return r
	}
	r.Probes["child_died"]++
	switch prop {
	case "C06":
		if timedOut || deadlock {
			r.violate("C06", "decoder-does-not-return", "", at, "the receiving process %s while handling the delivery at step %d", why, at)
		} else if oom {
			r.violate("C06", "decoder-exhausts-memory", "", at, "the receiving process %s while handling the delivery at step %d", why, at)
		} else {
			r.Fatal = "child died for a reason that is not C06's: " + tail(stderr, 600)
		}
	case "C05":
		if oom || timedOut || deadlock {
			// resource exhaustion / non-termination is C06's to report
			r.Probes["child_resource_death_not_c05"]++
		} else {
			r.violate("C05", "receiver-process-crashed", "", at, "the receiving process %s while handling the delivery at step %d: %s", why, at, tail(stderr, 300))
		}
	}
	return r
}

func init() {
	isolatedRunner["W-DEC"] = runDecIsolated
}

// cpuTime: user + system CPU time consumed by this process so far.
func cpuTime() time.Duration {
	var ru syscall.Rusage
	if err := syscall.Getrusage(syscall.RUSAGE_SELF, &ru); err != nil {
		return 0
	}
	return time.Duration(ru.Utime.Nano() + ru.Stime.Nano())
}

// slowdownNow measures how much slower than its CPU time this process currently
// runs: it spins until it has consumed 100 ms of CPU and returns wall / CPU (>= 1).
func slowdownNow() float64 {
	c0, t0 := cpuTime(), time.Now()
	x := uint64(1)
	for cpuTime()-c0 < 100*time.Millisecond {
		for i := 0; i < 200000; i++ {
			x = x*6364136223846793005 + 1442695040888963407
		}
	}
	_ = x
	f := float64(time.Since(t0)) / float64(cpuTime()-c0)
	if f < 1 {
		f = 1
	}
	return f
}

// nestFactor is 1, except for the entry points whose target type nests itself
// and decodes through the helper again at every level: there it is one more
// than the nesting depth of the input (brackets / braces outside strings for
// JSON, the walker's depth for well-formed CBOR).
func nestFactor(entry string, b []byte) uint64 {
	if !strings.Contains(entry, "(shape9)") {
		return 1
	}
	depth, max := 0, 0
	if strings.Contains(entry, "JSON") {
		inStr, esc := false, false
		for _, c := range b {
			switch {
			case esc:
				esc = false
			case inStr && c == '\\':
				esc = true
			case c == '"':
				inStr = !inStr
			case !inStr && (c == '{' || c == '['):
				depth++
				if depth > max {
					max = depth
				}
			case !inStr && (c == '}' || c == ']'):
				depth--
			}
		}
	} else if hs, ok := allHeads(b); ok {
		for _, h := range hs {
			if h.Depth > max {
				max = h.Depth
			}
		}
	}
	return uint64(1 + max)
}
