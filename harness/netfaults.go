package main

import (
	"bytes"
	"encoding/json"
	"fmt"
	"strconv"
	"strings"
)

// Fault catalogue of the channel between attester and verifier (seam S8) and
// of the relay between verifier and relying party. Every function is a pure
// function of (bytes in flight, concrete arguments): the generator draws the
// arguments, the executor knows nothing about the PRNG.

var netFaultKinds = []string{"net.bitflip", "net.bytesub", "net.multi", "net.truncate", "net.extend",
	"net.splice", "net.hdr", "net.leninflate", "net.concat", "net.tree"}

// hdr variants
const (
	hdrAlgToUnprotected = iota
	hdrDropAlgEmptyBstr
	hdrDropAlgEmptyMap
	hdrNilPayload
	hdrEmptySig
	hdrUntag
	hdrRetag
	hdrEmptyPayload
	hdrRecodeProt
	hdrTagPayload
	hdrTreeProt
	hdrSigPad
	hdrDupLabel
	hdrWrapPayload
	hdrVariants
)

var inflateSizes = []uint64{0x100, 0xffff, 0x10000, 0xffffff, 0x1000000, 0xfffffff, 0xffffffff, 0xffffffffff, 0x7fffffffffffffff, 0xffffffffffffffff, 24, 25, 1000}

// encodeHeadWide writes a head using at least the width that arg needs, but
// never the 1-byte immediate form when wide is set (so a small value can be
// written non-minimally).
func encodeHeadW(major byte, arg uint64, width int) []byte {
	m := major << 5
	switch width {
	case 1:
		return []byte{m | 24, byte(arg)}
	case 2:
		return []byte{m | 25, byte(arg >> 8), byte(arg)}
	case 4:
		return []byte{m | 26, byte(arg >> 24), byte(arg >> 16), byte(arg >> 8), byte(arg)}
	case 8:
		return []byte{m | 27, byte(arg >> 56), byte(arg >> 48), byte(arg >> 40), byte(arg >> 32),
			byte(arg >> 24), byte(arg >> 16), byte(arg >> 8), byte(arg)}
	}
	return encodeHead(major, arg)
}

// lengthHeads returns the heads of b that carry a length/count (major 2..5),
// scanning as far as the bytes are well-formed.
func lengthHeads(b []byte) []cborHead {
	var hs []cborHead
	_, _ = walkItem(b, 0, 0, &hs)
	var out []cborHead
	for _, h := range hs {
		if h.Major >= 2 && h.Major <= 5 && h.Info != 31 {
			out = append(out, h)
		}
	}
	return out
}

// applyNetFault damages tok. donor is another in-flight message (may be nil).
// It returns the damaged bytes and whether the fault actually changed anything.
func applyNetFault(tok []byte, op Op, donor []byte) ([]byte, bool) {
	out := append([]byte{}, tok...)
	switch op.F {
	case "net.bitflip":
		if len(out) == 0 {
			return out, false
		}
		bit := op.A % (len(out) * 8)
		if bit < 0 {
			bit = -bit
		}
		out[bit/8] ^= 1 << uint(bit%8)
		return out, true
	case "net.bytesub":
		if len(out) == 0 {
			return out, false
		}
		i := abs(op.A) % len(out)
		nb := byte(op.B)
		if nb == out[i] {
			nb ^= 0x01
		}
		out[i] = nb
		return out, true
	case "net.tree":
		// the signed payload is edited as a CBOR tree (no re-signing): another value, a
		// re-typed or re-encoded value, pairs added / dropped / reordered
		p, ok := splitSign1(out)
		if !ok || !p.PayloadIsBstr {
			return out, false
		}
		var np []byte
		var fired bool
		if op.C > 0 {
			np, fired = applyRetypeFault(p.Payload, op.A, op.C-1)
		} else {
			np, fired = applyTreeFault(p.Payload, op.A, op.B)
		}
		if !fired || bytes.Equal(np, p.Payload) {
			return out, false
		}
		return assembleSign1(p.Prot, out[p.UnprotOff:p.UnprotEnd], np, p.Sig), true
	case "net.multi":
		if len(out) == 0 || len(op.X) == 0 {
			return out, false
		}
		i := abs(op.A) % len(out)
		changed := false
		for j := 0; j < len(op.X) && i+j < len(out); j++ {
			if op.X[j] != 0 {
				changed = true
			}
			out[i+j] ^= op.X[j]
		}
		return out, changed
	case "net.truncate":
		if len(out) == 0 {
			return out, false
		}
		n := abs(op.A) % len(out)
		return out[:n], true
	case "net.extend":
		if len(op.X) == 0 {
			return out, false
		}
		return append(out, op.X...), true
	case "net.concat":
		if len(donor) == 0 {
			return out, false
		}
		return append(out, donor...), true
	case "net.splice":
		p, ok := splitSign1(out)
		q, ok2 := splitSign1(donor)
		if !ok || !ok2 {
			return out, false
		}
		var a0, a1, b0, b1 int
		switch abs(op.C) % 3 {
		case 0:
			a0, a1, b0, b1 = p.ProtOff, p.ProtEnd, q.ProtOff, q.ProtEnd
		case 1:
			a0, a1, b0, b1 = p.PayloadOff, p.PayloadEnd, q.PayloadOff, q.PayloadEnd
		default:
			a0, a1, b0, b1 = p.SigOff, p.SigEnd, q.SigOff, q.SigEnd
		}
		if bytes.Equal(out[a0:a1], donor[b0:b1]) {
			return out, false
		}
		r := append([]byte{}, out[:a0]...)
		r = append(r, donor[b0:b1]...)
		r = append(r, out[a1:]...)
		return r, true
	case "net.hdr":
		p, ok := splitSign1(out)
		if !ok || !p.ProtIsBstr {
			return out, false
		}
		prot := out[p.ProtOff:p.ProtEnd]
		unprot := out[p.UnprotOff:p.UnprotEnd]
		payload := out[p.PayloadOff:p.PayloadEnd]
		sig := out[p.SigOff:p.SigEnd]
		asm := func(tag []byte, parts ...[]byte) []byte {
			r := append([]byte{}, tag...)
			r = append(r, 0x84)
			for _, x := range parts {
				r = append(r, x...)
			}
			return r
		}
		switch abs(op.A) % hdrVariants {
		case hdrAlgToUnprotected:
			// the protected bucket becomes empty, its former content moves to the unprotected map
			if len(p.Prot) == 0 {
				return out, false
			}
			return asm([]byte{0xd2}, []byte{0x40}, p.Prot, payload, sig), true
		case hdrDropAlgEmptyBstr:
			return asm([]byte{0xd2}, []byte{0x40}, unprot, payload, sig), true
		case hdrDropAlgEmptyMap:
			return asm([]byte{0xd2}, []byte{0x41, 0xa0}, unprot, payload, sig), true
		case hdrNilPayload:
			return asm([]byte{0xd2}, prot, unprot, []byte{0xf6}, sig), true
		case hdrEmptyPayload:
			return asm([]byte{0xd2}, prot, unprot, []byte{0x40}, sig), true
		case hdrEmptySig:
			return asm([]byte{0xd2}, prot, unprot, payload, []byte{0x40}), true
		case hdrRecodeProt:
			// same protected map, one of its small integers written non-minimally
			var hs []cborHead
			if _, err := walkItem(p.Prot, 0, 0, &hs); err != nil {
				return out, false
			}
			var cands []cborHead
			for _, h := range hs {
				if (h.Major == 0 || h.Major == 1) && h.HLen == 1 {
					cands = append(cands, h)
				}
			}
			if len(cands) == 0 {
				return out, false
			}
			h := cands[abs(op.B)%len(cands)]
			np := append([]byte{}, p.Prot[:h.Off]...)
			np = append(np, encodeHeadW(h.Major, h.Arg, 1)...)
			np = append(np, p.Prot[h.Off+1:]...)
			return asm([]byte{0xd2}, cborBstr(np), unprot, payload, sig), true
		case hdrTreeProt:
			// structural damage inside the protected header map (e.g. alg becomes a text string)
			np, ok := applyTreeFault(p.Prot, op.B, op.C)
			if !ok {
				return out, false
			}
			return asm([]byte{0xd2}, cborBstr(np), unprot, payload, sig), true
		case hdrSigPad:
			// the signature followed by 1..4 padding bytes (zeros, or 0xff), length head adjusted
			if !p.SigIsBstr {
				return out, false
			}
			pad := byte(0)
			if abs(op.C)%4 == 3 {
				pad = 0xff
			}
			ns := append(append([]byte{}, p.Sig...), bytes.Repeat([]byte{pad}, 1+abs(op.B)%4)...)
			return asm([]byte{0xd2}, prot, unprot, payload, cborBstr(ns)), true
		case hdrDupLabel:
			// the same header label in the protected AND the unprotected bucket, with byte-string,
			// array or map values (kid, IV, x5chain style)
			if len(p.Prot) == 0 {
				return out, false
			}
			ph, err := readHead(p.Prot, 0)
			if err != nil || ph.Major != 5 || ph.Info == 31 {
				return out, false
			}
			label := []byte{0x04, 0x05, 0x18, 0x21}[abs(op.B)%4:][:1]
			if abs(op.B)%4 == 2 {
				label = []byte{0x18, 0x21}
			}
			val := [][]byte{{0x42, 0x01, 0x02}, {0x81, 0x41, 0x00}, {0xa1, 0x00, 0x40}, {0x40}}[abs(op.C)%4]
			np := append([]byte{}, encodeHead(5, ph.Arg+1)...)
			np = append(np, p.Prot[ph.HLen:]...)
			np = append(np, label...)
			np = append(np, val...)
			nu := append(append([]byte{0xa1}, label...), val...)
			return asm([]byte{0xd2}, cborBstr(np), nu, payload, sig), true
		case hdrWrapPayload:
			// "bstr .cbor claims": the signed claims wrapped once more in a byte string (optionally tag 24)
			if !p.PayloadIsBstr {
				return out, false
			}
			inner := cborBstr(p.Payload)
			if abs(op.B)%2 == 1 {
				inner = append([]byte{0xd8, 0x18}, inner...)
			}
			return asm([]byte{0xd2}, prot, unprot, cborBstr(inner), sig), true
		case hdrTagPayload:
			// the same claims behind a tag the claims decoder skips (or not): the signed bytes differ
			if !p.PayloadIsBstr {
				return out, false
			}
			tags := [][]byte{{0xd9, 0xd9, 0xf7}, {0xc1}, {0xd8, 0x18}, {0xd9, 0xd9, 0xf7, 0xd9, 0xd9, 0xf7}}
			np := append(append([]byte{}, tags[abs(op.B)%len(tags)]...), p.Payload...)
			return asm([]byte{0xd2}, prot, unprot, cborBstr(np), sig), true
		case hdrUntag:
			return out[1:], true
		case hdrRetag:
			tags := [][]byte{{0xd1}, {0xd8, 0x62}, {0xd0}, {0xd8, 0x3d}, {0xd3}}
			return append(append([]byte{}, tags[abs(op.B)%len(tags)]...), out[1:]...), true
		}
		return out, false
	case "net.leninflate":
		hs := lengthHeads(out)
		if len(hs) == 0 {
			return out, false
		}
		h := hs[abs(op.A)%len(hs)]
		sz := inflateSizes[abs(op.B)%len(inflateSizes)]
		var nh []byte
		if op.C > 0 {
			// same value, non-minimal width
			w := []int{1, 2, 4, 8}[abs(op.C)%4]
			nh = encodeHeadW(h.Major, h.Arg, w)
		} else {
			nh = encodeHead(h.Major, sz)
		}
		r := append([]byte{}, out[:h.Off]...)
		r = append(r, nh...)
		r = append(r, out[h.Off+h.HLen:]...)
		return r, !bytes.Equal(r, out)
	}
	return out, false
}

func abs(i int) int {
	if i < 0 {
		if i == -i {
			return 0
		}
		return -i
	}
	return i
}

// genNetFault draws one channel fault.
func genNetFault(r *Rng, kinds []string, nSlots int) Op {
	k := kinds[r.Intn(len(kinds))]
	op := Op{K: "fault", F: k}
	switch k {
	case "net.bitflip":
		op.A = r.Intn(1 << 20)
	case "net.bytesub":
		op.A = r.Intn(1 << 16)
		op.B = r.Intn(256)
	case "net.multi":
		op.A = r.Intn(1 << 16)
		op.X = r.Bytes(r.Range(2, 8))
	case "net.truncate":
		op.A = r.Intn(1 << 16)
	case "net.extend":
		op.X = r.Bytes(r.Range(1, 6))
		if r.Chance(1, 3) {
			op.X = []byte{0x00}
		}
	case "net.concat":
		op.B = r.Intn(nSlots + 1)
	case "net.splice":
		op.B = r.Intn(nSlots + 1)
		op.C = r.Intn(3)
	case "net.hdr":
		op.A = r.Intn(hdrVariants)
		op.B = r.Intn(8)
		op.C = r.Intn(64)
	case "net.tree":
		op.A = r.Intn(1 << 12)
		op.B = r.Intn(1 << 12)
		if r.Chance(1, 2) {
			op.C = 1 + r.Intn(retypeVariants) // re-typing / re-encoding of one item that keeps its content
		}
	case "net.leninflate":
		op.A = r.Intn(64)
		op.B = r.Intn(len(inflateSizes))
		if r.Chance(1, 4) {
			op.C = r.Range(1, 4)
		}
	}
	return op
}

// ------------------------------------------------------------------ byz.tree (CBOR)

// itemSpans lists (offset, end) of every data item of the single item in b.
func itemSpans(b []byte) [][2]int {
	var hs []cborHead
	if _, err := walkItem(b, 0, 0, &hs); err != nil {
		return nil
	}
	var out [][2]int
	for _, h := range hs {
		end, err := walkItem(b, h.Off, 0, nil)
		if err != nil {
			continue
		}
		out = append(out, [2]int{h.Off, end})
	}
	return out
}

var treeSubst = [][]byte{
	{0xf6}, // null
	{0x40}, // empty bstr
	{0x60}, // empty tstr
	{0x80}, // empty array
	{0xa0}, // empty map
	{0x00}, // 0
	{0x20}, // -1
	{0xf5}, // true
	{0xf7}, // undefined
	{0x1b, 0xff, 0xff, 0xff, 0xff, 0xff, 0xff, 0xff, 0xff}, // 2^64-1
	{0x3b, 0xff, 0xff, 0xff, 0xff, 0xff, 0xff, 0xff, 0xff}, // -2^64
	{0xfb, 0x3f, 0xf8, 0, 0, 0, 0, 0, 0},                   // 1.5
	{0xc1, 0x00},                                           // tagged
	{0x81, 0xf6},                                           // [null]
	{0x82, 0x40, 0x40},                                     // [h'', h'']
	{0xa1, 0x00, 0xf6},                                     // {0: null}
	{0x41, 0x00},                                           // h'00'
	{0x61, 0x61},                                           // "a"
	{0x62, 0xc3, 0x28},                                     // invalid UTF-8 text
	{0x81, 0xa0},                                           // [{}]
	{0x81, 0x80},                                           // [[]]
	{0x19, 0xff, 0xff},                                     // 65535
	{0x1a, 0x00, 0x01, 0x00, 0x00},                         // 65536
	{0x3a, 0x80, 0x00, 0x00, 0x00},                         // -2^31-1
}

// applyTreeFault mutates the CBOR item tree of payload at node A with variant
// B: substitute a node, duplicate a map pair, drop a map pair, or swap two
// map values. ok=false if payload is not one well-formed item.
func applyTreeFault(payload []byte, a, b int) ([]byte, bool) {
	var hs []cborHead
	end, err := walkItem(payload, 0, 0, &hs)
	if err != nil || end != len(payload) || len(hs) == 0 {
		return payload, false
	}
	h := hs[abs(a)%len(hs)]
	iend, err := walkItem(payload, h.Off, 0, nil)
	if err != nil {
		return payload, false
	}
	splice := func(off, end int, with []byte) []byte {
		r := append([]byte{}, payload[:off]...)
		r = append(r, with...)
		return append(r, payload[end:]...)
	}
	nv := len(treeSubst)
	// text / byte strings: a quarter of the time edit the value into a close neighbour
	// instead of replacing it (one more / one fewer byte, a trailing slash, a space, other case)
	if (h.Major == 2 || h.Major == 3) && h.Info != 31 && abs(b)%4 == 3 {
		content := payload[h.Off+h.HLen : iend]
		var nc []byte
		switch (abs(b) / 4) % 8 {
		case 0:
			nc = append(append([]byte{}, content...), '/')
		case 1:
			nc = append([]byte{' '}, content...)
		case 2:
			nc = append(append([]byte{}, content...), ' ')
		case 3:
			nc = bytes.ToLower(content)
		case 4:
			nc = bytes.ToUpper(content)
		case 5:
			if len(content) > 0 {
				nc = append([]byte{}, content[:len(content)-1]...)
			} else {
				nc = []byte{0}
			}
		case 6:
			nc = append(append([]byte{}, content...), 0x00)
		default:
			nc = append(append([]byte{}, content...), content...)
		}
		if !bytes.Equal(nc, content) {
			return splice(h.Off, iend, append(encodeHead(h.Major, uint64(len(nc))), nc...)), true
		}
	}
	v := abs(b) % (nv + 6)
	if v < nv {
		return splice(h.Off, iend, treeSubst[v]), true
	}
	// structural variants need a definite-length map with at least one pair
	if h.Major != 5 || h.Info == 31 || h.Arg == 0 || h.Arg > 1000 {
		return splice(h.Off, iend, treeSubst[abs(b)%nv]), true
	}
	p := h.Off + h.HLen
	kEnd, err := walkItem(payload, p, 0, nil)
	if err != nil {
		return payload, false
	}
	vEnd, err := walkItem(payload, kEnd, 0, nil)
	if err != nil {
		return payload, false
	}
	switch v - nv {
	case 0: // duplicate the first pair
		nh := encodeHead(5, h.Arg+1)
		r := append([]byte{}, payload[:h.Off]...)
		r = append(r, nh...)
		r = append(r, payload[p:vEnd]...)
		r = append(r, payload[p:]...)
		return r, true
	case 1: // drop the first pair
		nh := encodeHead(5, h.Arg-1)
		r := append([]byte{}, payload[:h.Off]...)
		r = append(r, nh...)
		r = append(r, payload[vEnd:]...)
		return r, true
	case 2: // first key now maps to a copy of the whole map (nesting)
		r := append([]byte{}, payload[:kEnd]...)
		r = append(r, payload[h.Off:iend]...)
		r = append(r, payload[vEnd:]...)
		return r, true
	case 3: // same map, indefinite length
		r := append([]byte{}, payload[:h.Off]...)
		r = append(r, 0xbf)
		r = append(r, payload[p:iend]...)
		r = append(r, 0xff)
		r = append(r, payload[iend:]...)
		return r, true
	case 4: // indefinite length, first pair repeated byte for byte at the end
		r := append([]byte{}, payload[:h.Off]...)
		r = append(r, 0xbf)
		r = append(r, payload[p:iend]...)
		r = append(r, payload[p:vEnd]...)
		r = append(r, 0xff)
		r = append(r, payload[iend:]...)
		return r, true
	default: // indefinite length without the break
		r := append([]byte{}, payload[:h.Off]...)
		r = append(r, 0xbf)
		r = append(r, payload[p:]...)
		return r, true
	}
}

const retypeVariants = 8

// applyRetypeFault changes HOW one item of a well-formed CBOR tree is written
// while keeping what it carries: byte string <-> text string, 0/1 <-> false/true,
// unsigned <-> negative, a wider (non-minimal) head, two map pairs swapped, an
// unknown pair appended, a tag in front. Node A, variant V.
func applyRetypeFault(payload []byte, a, v int) ([]byte, bool) {
	var hs []cborHead
	end, err := walkItem(payload, 0, 0, &hs)
	if err != nil || end != len(payload) || len(hs) == 0 {
		return payload, false
	}
	// look for a node the variant applies to, starting at A
	for k := 0; k < len(hs); k++ {
		h := hs[(abs(a)+k)%len(hs)]
		iend, err := walkItem(payload, h.Off, 0, nil)
		if err != nil {
			return payload, false
		}
		out := append([]byte{}, payload...)
		switch v % retypeVariants {
		case 0: // bstr <-> tstr
			if (h.Major == 2 || h.Major == 3) && h.Info != 31 {
				out[h.Off] ^= 0x20
				return out, true
			}
		case 1: // 0/1 -> false/true, false/true -> 0/1
			if h.Major == 0 && h.HLen == 1 && h.Arg <= 1 {
				out[h.Off] = 0xf4 + byte(h.Arg)
				return out, true
			}
			if h.Major == 7 && (payload[h.Off] == 0xf4 || payload[h.Off] == 0xf5) {
				out[h.Off] = payload[h.Off] - 0xf4
				return out, true
			}
		case 2: // unsigned <-> negative
			if h.Major == 0 || h.Major == 1 {
				out[h.Off] ^= 0x20
				return out, true
			}
		case 3, 4: // the same head, written wider than needed
			if h.Major <= 5 && h.Info != 31 && h.HLen < 9 {
				w := map[int]int{1: 1, 2: 2, 3: 4, 5: 8}[h.HLen] // argument bytes of the next wider form
				if v%retypeVariants == 4 {
					w = 8
				}
				nh := encodeHeadW(h.Major, h.Arg, w)
				if len(nh) != h.HLen {
					r := append([]byte{}, payload[:h.Off]...)
					r = append(r, nh...)
					return append(r, payload[h.Off+h.HLen:]...), true
				}
			}
		case 5: // swap the first two pairs of a definite-length map
			if h.Major == 5 && h.Info != 31 && h.Arg >= 2 && h.Arg < 1000 {
				p := h.Off + h.HLen
				e1, err1 := walkItem(payload, p, 0, nil)
				if err1 != nil {
					return payload, false
				}
				e1, err1 = walkItem(payload, e1, 0, nil)
				if err1 != nil {
					return payload, false
				}
				e2, err2 := walkItem(payload, e1, 0, nil)
				if err2 != nil {
					return payload, false
				}
				e2, err2 = walkItem(payload, e2, 0, nil)
				if err2 != nil {
					return payload, false
				}
				r := append([]byte{}, payload[:p]...)
				r = append(r, payload[e1:e2]...)
				r = append(r, payload[p:e1]...)
				return append(r, payload[e2:]...), true
			}
		case 6: // one more pair under a key nobody knows
			if h.Major == 5 && h.Info != 31 && h.Arg < 1000 {
				r := append([]byte{}, payload[:h.Off]...)
				r = append(r, encodeHead(5, h.Arg+1)...)
				r = append(r, payload[h.Off+h.HLen:iend]...)
				r = append(r, 0x3a, 0x00, 0x98, 0x96, 0x7f, 0x01) // -10000000: 1
				return append(r, payload[iend:]...), true
			}
		default: // a tag in front of the item: seven tag numbers, each in all five head widths
			tags := []uint64{32, 111, 24, 55799, 61, 1, 2}
			tg := tags[(abs(a)/len(hs))%len(tags)]
			w := []int{0, 1, 2, 4, 8}[(abs(a)/(len(hs)*len(tags)))%5]
			var hd []byte
			if w == 0 || (w == 1 && tg > 0xff) {
				hd = encodeHead(6, tg)
			} else {
				hd = encodeHeadW(6, tg, w)
			}
			r := append([]byte{}, payload[:h.Off]...)
			r = append(r, hd...)
			return append(r, payload[h.Off:]...), true
		}
	}
	return payload, false
}

// applyManyMembers adds n tiny distinct members to the top-level map of a
// CBOR item (possibly behind tags) or of a JSON object: a legal message with
// no hostile length field, just many members.
func applyManyMembers(msg []byte, n int, isJSON bool) ([]byte, bool) {
	if n <= 0 {
		return msg, false
	}
	if isJSON {
		i := bytes.LastIndexByte(msg, '}')
		if i < 0 {
			return msg, false
		}
		var sb bytes.Buffer
		sb.Write(msg[:i])
		hasMembers := bytes.ContainsRune(msg[:i], ':')
		for k := 0; k < n; k++ {
			if k > 0 || hasMembers {
				sb.WriteByte(',')
			}
			fmt.Fprintf(&sb, `"k%d":0`, k)
		}
		sb.Write(msg[i:])
		return sb.Bytes(), true
	}
	pos := 0
	for {
		h, err := readHead(msg, pos)
		if err != nil {
			return msg, false
		}
		if h.Major == 6 {
			pos += h.HLen
			continue
		}
		if h.Major != 5 || h.Info == 31 {
			return msg, false
		}
		end, err := walkItem(msg, pos, 0, nil)
		if err != nil {
			return msg, false
		}
		r := append([]byte{}, msg[:pos]...)
		r = append(r, encodeHead(5, h.Arg+uint64(n))...)
		r = append(r, msg[pos+h.HLen:end]...)
		for k := 0; k < n; k++ {
			r = append(r, encodeHead(0, uint64(100000+k))...)
			r = append(r, 0x00)
		}
		r = append(r, msg[end:]...)
		return r, true
	}
}

// ------------------------------------------------------------------ json.member

type jnode struct {
	kind byte // 'o' object, 'a' array, 'v' scalar
	keys []string
	kids []*jnode
	raw  string // scalar text
}

func parseJSONTree(b []byte) (*jnode, bool) {
	dec := json.NewDecoder(bytes.NewReader(b))
	dec.UseNumber()
	n, err := parseJNode(dec, 0)
	if err != nil {
		return nil, false
	}
	if _, err := dec.Token(); err == nil {
		return nil, false
	}
	return n, true
}

func parseJNode(dec *json.Decoder, depth int) (*jnode, error) {
	if depth > 200 {
		return nil, fmt.Errorf("deep")
	}
	t, err := dec.Token()
	if err != nil {
		return nil, err
	}
	switch v := t.(type) {
	case json.Delim:
		switch v {
		case '{':
			n := &jnode{kind: 'o'}
			for dec.More() {
				kt, err := dec.Token()
				if err != nil {
					return nil, err
				}
				k, ok := kt.(string)
				if !ok {
					return nil, fmt.Errorf("key")
				}
				c, err := parseJNode(dec, depth+1)
				if err != nil {
					return nil, err
				}
				n.keys = append(n.keys, k)
				n.kids = append(n.kids, c)
			}
			if _, err := dec.Token(); err != nil {
				return nil, err
			}
			return n, nil
		case '[':
			n := &jnode{kind: 'a'}
			for dec.More() {
				c, err := parseJNode(dec, depth+1)
				if err != nil {
					return nil, err
				}
				n.kids = append(n.kids, c)
			}
			if _, err := dec.Token(); err != nil {
				return nil, err
			}
			return n, nil
		}
		return nil, fmt.Errorf("delim")
	case string:
		return &jnode{kind: 'v', raw: strconv.Quote(v)}, nil
	case json.Number:
		return &jnode{kind: 'v', raw: v.String()}, nil
	case bool:
		if v {
			return &jnode{kind: 'v', raw: "true"}, nil
		}
		return &jnode{kind: 'v', raw: "false"}, nil
	case nil:
		return &jnode{kind: 'v', raw: "null"}, nil
	}
	return nil, fmt.Errorf("token")
}

func (n *jnode) write(sb *bytes.Buffer) {
	switch n.kind {
	case 'o':
		sb.WriteByte('{')
		for i, k := range n.keys {
			if i > 0 {
				sb.WriteByte(',')
			}
			kb, _ := json.Marshal(k)
			sb.Write(kb)
			sb.WriteByte(':')
			n.kids[i].write(sb)
		}
		sb.WriteByte('}')
	case 'a':
		sb.WriteByte('[')
		for i, c := range n.kids {
			if i > 0 {
				sb.WriteByte(',')
			}
			c.write(sb)
		}
		sb.WriteByte(']')
	default:
		sb.WriteString(n.raw)
	}
}

func (n *jnode) all(out *[]*jnode) {
	*out = append(*out, n)
	for _, c := range n.kids {
		c.all(out)
	}
}

var jsonSubst = []string{"null", "[]", "{}", `""`, "0", "-1", "true", "1e400", "1.5", `"a"`, "[null]", "[{}]", "[[]]",
	`{"a":null}`, "4294967296", "-2147483649", "65536", `"AA=="`, `"!!!"`, `[1,2]`, "18446744073709551616", "28672", "61695", "4351", "4352",
	"1e-1000000", "1e-400", "12288.0", "1.2288e4", "0.0000001e7", "-0", "1E+2"}

// applyJSONFault mutates the member tree of doc at node a with variant b.
func applyJSONFault(doc []byte, a, b int) ([]byte, bool) {
	root, ok := parseJSONTree(doc)
	if !ok {
		return doc, false
	}
	var nodes []*jnode
	root.all(&nodes)
	n := nodes[abs(a)%len(nodes)]
	ns := len(jsonSubst)
	if n.kind == 'v' && len(n.raw) >= 2 && n.raw[0] == '"' && abs(b)%4 == 3 {
		if str, err := strconv.Unquote(n.raw); err == nil {
			var ns2 string
			switch (abs(b) / 4) % 6 {
			case 0:
				ns2 = str + "/"
			case 1:
				ns2 = " " + str
			case 2:
				ns2 = strings.ToLower(str)
			case 3:
				ns2 = strings.ToUpper(str)
			case 4:
				if len(str) > 0 {
					ns2 = str[:len(str)-1]
				} else {
					ns2 = "A"
				}
			default:
				ns2 = str + str
			}
			if ns2 != str {
				*n = jnode{kind: 'v', raw: strconv.Quote(ns2)}
				var sb bytes.Buffer
				root.write(&sb)
				return sb.Bytes(), true
			}
		}
	}
	v := abs(b) % (ns + 4)
	if v >= ns && (n.kind != 'o' || len(n.keys) == 0) {
		v = abs(b) % ns
	}
	switch {
	case v == ns+3: // every member of the object once (or twice) more, in order: the last occurrence wins
		keys, kids := n.keys, n.kids
		for rep := 0; rep <= abs(a/7)%2; rep++ {
			n.keys = append(n.keys, keys...)
			n.kids = append(n.kids, kids...)
		}
	case v < ns:
		*n = jnode{kind: 'v', raw: jsonSubst[v]}
	case v == ns: // duplicate the first member
		n.keys = append([]string{n.keys[0]}, n.keys...)
		n.kids = append([]*jnode{n.kids[0]}, n.kids...)
	case v == ns+1: // duplicate a member at the end
		i := abs(a/7) % len(n.keys)
		n.keys = append(n.keys, n.keys[i])
		n.kids = append(n.kids, n.kids[i])
	default: // delete a member
		i := abs(a/7) % len(n.keys)
		n.keys = append(append([]string{}, n.keys[:i]...), n.keys[i+1:]...)
		n.kids = append(append([]*jnode{}, n.kids[:i]...), n.kids[i+1:]...)
	}
	var sb bytes.Buffer
	root.write(&sb)
	return sb.Bytes(), true
}

// neighbourString returns a string that differs slightly from s.
func neighbourString(s string, variant int) string {
	switch abs(variant) % 18 {
	case 14:
		// printf directives (a width with an explicit argument index re-prints an operand padded to 10^6 columns)
		return strings.Repeat("%1000000[1]v", 24)
	case 15:
		return "%s%d%v%!(EXTRA %n %[3]*.[2]*[1]f"
	case 16:
		// glob / regexp metacharacters: many wildcards, then a character that cannot match
		return strings.Repeat("*", 28) + "!"
	case 17:
		return "(((((a*)*)*)*)*)*[[[[^^$$..\\E"
	case 10:
		return s + "#"
	case 11:
		return s + "?"
	case 12:
		return s + "//"
	case 13:
		return "/" + s
	case 0:
		return s + "/"
	case 1:
		return " " + s
	case 2:
		return s + " "
	case 3:
		return strings.ToLower(s)
	case 4:
		return strings.ToUpper(s)
	case 5:
		if len(s) > 0 {
			return s[:len(s)-1]
		}
		return "x"
	case 6:
		return s + "\x00"
	case 7:
		return strings.TrimSuffix(s, "/")
	case 8:
		return ""
	default:
		return s + s
	}
}

// applyProfileFault edits the value of the profile claim (CBOR key 265 or
// -75000 of the top-level map; JSON members eat-profile / psa-profile) into a
// close neighbour of itself: the claim every decode dispatches on.
func applyProfileFault(msg []byte, variant int, isJSON bool) ([]byte, bool) {
	if isJSON {
		root, ok := parseJSONTree(msg)
		if !ok || root.kind != 'o' {
			return msg, false
		}
		if abs(variant)%20 >= 18 {
			// the document now also carries the OTHER built-in profile's member, with that profile's name
			for _, k := range root.keys {
				other, val := "", ""
				switch k {
				case "psa-profile":
					other, val = "eat-profile", "http://arm.com/psa/2.0.0"
				case "eat-profile":
					other, val = "psa-profile", "PSA_IOT_PROFILE_1"
				}
				if other != "" {
					root.keys = append(root.keys, other)
					root.kids = append(root.kids, &jnode{kind: 'v', raw: strconv.Quote(val)})
					var sb bytes.Buffer
					root.write(&sb)
					return sb.Bytes(), true
				}
			}
			return msg, false
		}
		for i, k := range root.keys {
			if (k == "eat-profile" || k == "psa-profile") && root.kids[i].kind == 'v' && strings.HasPrefix(root.kids[i].raw, "\"") {
				str, err := strconv.Unquote(root.kids[i].raw)
				if err != nil {
					continue
				}
				ns := neighbourString(str, variant)
				if ns == str {
					return msg, false
				}
				root.kids[i] = &jnode{kind: 'v', raw: strconv.Quote(ns)}
				var sb bytes.Buffer
				root.write(&sb)
				return sb.Bytes(), true
			}
		}
		return msg, false
	}
	pos := 0
	for {
		h, err := readHead(msg, pos)
		if err != nil {
			return msg, false
		}
		if h.Major == 6 {
			pos += h.HLen
			continue
		}
		if h.Major != 5 || h.Info == 31 {
			return msg, false
		}
		p := pos + h.HLen
		for i := uint64(0); i < h.Arg; i++ {
			kh, err := readHead(msg, p)
			if err != nil {
				return msg, false
			}
			kEnd, err := walkItem(msg, p, 0, nil)
			if err != nil {
				return msg, false
			}
			vEnd, err := walkItem(msg, kEnd, 0, nil)
			if err != nil {
				return msg, false
			}
			isProfileKey := (kh.Major == 0 && kh.Arg == 265) || (kh.Major == 1 && kh.Arg == 74999)
			if isProfileKey {
				vh, err := readHead(msg, kEnd)
				if err == nil && vh.Major == 3 && vh.Info != 31 {
					str := string(msg[kEnd+vh.HLen : vEnd])
					ns := neighbourString(str, variant)
					if ns == str {
						return msg, false
					}
					r := append([]byte{}, msg[:kEnd]...)
					r = append(r, encodeHead(3, uint64(len(ns)))...)
					r = append(r, ns...)
					r = append(r, msg[vEnd:]...)
					return r, true
				}
			}
			p = vEnd
		}
		return msg, false
	}
}

// applyArrayFlood replaces the a-th array of a CBOR item / JSON document by an
// array of n unusable entries (nulls, empty maps, empty strings).
func applyArrayFlood(msg []byte, a, n, variant int, isJSON bool) ([]byte, bool) {
	if n <= 0 {
		return msg, false
	}
	if isJSON {
		root, ok := parseJSONTree(msg)
		if !ok {
			return msg, false
		}
		var nodes, arrays []*jnode
		root.all(&nodes)
		for _, x := range nodes {
			if x.kind == 'a' {
				arrays = append(arrays, x)
			}
		}
		if len(arrays) == 0 {
			return msg, false
		}
		el := []string{"null", "{}", `""`, "[]"}[abs(variant)%4]
		t := arrays[abs(a)%len(arrays)]
		*t = jnode{kind: 'v', raw: "[" + strings.TrimSuffix(strings.Repeat(el+",", n), ",") + "]"}
		var sb bytes.Buffer
		root.write(&sb)
		return sb.Bytes(), true
	}
	var hs []cborHead
	if _, err := walkItem(msg, 0, 0, &hs); err != nil {
		return msg, false
	}
	var arrays []cborHead
	for _, h := range hs {
		if h.Major == 4 && h.Info != 31 {
			arrays = append(arrays, h)
		}
	}
	if len(arrays) == 0 {
		return msg, false
	}
	h := arrays[abs(a)%len(arrays)]
	end, err := walkItem(msg, h.Off, 0, nil)
	if err != nil {
		return msg, false
	}
	el := []byte{0xf6, 0xa0, 0x40, 0x80}[abs(variant)%4]
	r := append([]byte{}, msg[:h.Off]...)
	r = append(r, encodeHead(4, uint64(n))...)
	r = append(r, bytes.Repeat([]byte{el}, n)...)
	r = append(r, msg[end:]...)
	return r, true
}
