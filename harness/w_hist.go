package main

import (
	"unicode/utf8"
	"reflect"
	"encoding/hex"
	"encoding/json"
	"fmt"
	"strings"

	psatoken "github.com/veraison/psatoken"
)

// W-HIST: one claims-set, software component or component container driven
// through a history of setter / container calls with valid and invalid
// arguments interleaved. Serves C11.
//
// All oracles are differential against the same profile's own validation: a
// probe object that is otherwise valid receives the value WITHOUT the setter
// (exported struct fields, the container's public codec), and its Validate()
// is the reference for "is this a value the profile accepts for that claim".

type HistCfg struct {
	Obj string `json:"obj"` // p1 | p2 | xp1 | xp2 | comp | cont
	// Start, when present, is a claims-set whose CBOR encoding the object is
	// first populated from (a decoded token as the starting state instead of
	// a fresh NewClaims result).
	Start *ClaimsDesc `json:"start,omitempty"`
}

type histWorld struct{}

func (histWorld) Name() string { return "W-HIST" }

var histClaimOps = []string{"cid", "lc", "impl", "seed", "cert", "sw", "nonce", "inst", "vsi"}

// swedit: a software component of the claims-set is updated in place through
// its own setter (the list is reached through the getter)
var histCompOps = []string{"mt", "mv", "ver", "sid", "md"}
var histLens = []int{0, 1, 7, 8, 9, 16, 31, 32, 33, 34, 47, 48, 49, 63, 64, 65, 80}

func genHistLen(r *Rng) int {
	if r.Chance(3, 4) {
		return histLens[r.Intn(len(histLens))]
	}
	return r.Intn(81)
}

func genCertRef(r *Rng) string {
	base := genDigits(r, 13)
	if r.Chance(1, 2) {
		base += "-" + genDigits(r, 5)
	}
	switch r.Intn(12) {
	case 0: // delete one character
		i := r.Intn(len(base))
		return base[:i] + base[i+1:]
	case 1: // insert a digit
		i := r.Intn(len(base) + 1)
		return base[:i] + "7" + base[i:]
	case 2: // a letter instead of a digit
		i := r.Intn(len(base))
		return base[:i] + "a" + base[i+1:]
	case 3:
		return strings.Replace(base, "-", "_", 1)
	case 4:
		return " " + base
	case 5:
		return base + "\n"
	case 6:
		return ""
	case 7:
		return base + "-" + genDigits(r, 5)
	case 8:
		// a sign character where a digit belongs
		i := []int{0, 14}[r.Intn(2)]
		if i < len(base) {
			return base[:i] + string("+-"[r.Intn(2)]) + base[i+1:]
		}
	}
	return base
}

func genHistLifecycle(r *Rng) uint16 {
	base := uint16(r.Intn(8)) << 12
	switch r.Intn(6) {
	case 0:
		return base
	case 1:
		return base | 0xff
	case 2:
		return base | 0x100
	case 3:
		return base - 1
	case 4:
		return uint16(r.Intn(1 << 16))
	}
	return base | uint16(r.Intn(256))
}

func genSwMaybeBad(r *Rng) SwDesc {
	d := genSw(r)
	switch r.Intn(9) {
	case 8:
		if r.Chance(1, 2) {
			return SwDesc{Nil: true, Version: sp("untyped")} // a nil interface value rather than a typed nil pointer
		}
		return SwDesc{Nil: true}
	case 0:
		d.MVal = nil
	case 1:
		d.Signer = nil
	case 2:
		d.MVal = hp(r.Bytes(genHistLen(r)))
	case 3:
		d.Signer = hp(r.Bytes(genHistLen(r)))
	}
	return d
}

func genSwListOp(r *Rng, k string) Op {
	op := Op{K: k}
	switch r.Intn(8) {
	case 0:
		op.D = 1 // nil list
		return op
	case 1:
		op.D = 2 // empty, non-nil: "clear"
		return op
	}
	n := r.Range(1, 4)
	var l []SwDesc
	allGood := r.Chance(3, 5)
	for i := 0; i < n; i++ {
		if allGood {
			l = append(l, genSw(r))
		} else {
			l = append(l, genSwMaybeBad(r))
		}
	}
	b, _ := json.Marshal(l)
	op.S = string(b)
	return op
}

func genHistOp(r *Rng, obj string) Op {
	switch obj {
	case "comp":
		if r.Chance(1, 10) {
			return Op{K: "sibling"} // copy-then-customise: a plain struct copy of the component is kept aside
		}
		k := histCompOps[r.Intn(len(histCompOps))]
		op := Op{K: k}
		switch k {
		case "mv", "sid":
			op.X = r.Bytes(genHistLen(r))
			if len(op.X) == 0 && r.Chance(1, 2) {
				op.D = 1
			}
		default:
			op.S = textPool[r.Intn(len(textPool))]
		}
		return op
	case "cont":
		if r.Chance(1, 2) {
			return genSwListOp(r, "add")
		}
		return genSwListOp(r, "replace")
	}
	if r.Chance(1, 16) {
		return Op{K: "swslice", A: r.Intn(4)}
	}
	if r.Chance(1, 20) {
		return Op{K: "fork"} // template idiom: next := *claims, kept aside
	}
	if r.Chance(1, 12) {
		return Op{K: "swedit", A: r.Intn(4), B: r.Intn(3), S: textPool[r.Intn(len(textPool))], X: r.Bytes(hashLens[r.Intn(3)])}
	}
	k := histClaimOps[r.Intn(len(histClaimOps))]
	op := Op{K: k}
	switch k {
	case "cid":
		op.A = int(int32(r.U64()))
		if r.Chance(1, 4) {
			op.A = []int{0, 1, -1, 2147483647, -2147483648}[r.Intn(5)]
		}
	case "lc":
		op.A = int(genHistLifecycle(r))
	case "impl", "seed", "nonce":
		op.X = r.Bytes(genHistLen(r))
		if len(op.X) == 0 && r.Chance(1, 2) {
			op.D = 1
		}
	case "inst":
		op.X = r.Bytes(genHistLen(r))
		if len(op.X) > 0 && r.Chance(2, 3) {
			op.X[0] = 0x01
		}
	case "cert":
		op.S = genCertRef(r)
	case "vsi":
		op.S = []string{"", "x", "https://veraison.example/v1/challenge-response", "é://v", "a b", "\x00", " ", "\t", " padded ", "trailing\n"}[r.Intn(10)]
		if r.Chance(1, 8) {
			// not well-formed UTF-8: carried as bytes, a trace is JSON
			op.S = ""
			op.X = [][]byte{[]byte("caf\xe9"), []byte("https://veraison.example/\xff\xfe/v1"), {0xc3, 0x28}}[r.Intn(3)]
		}
	case "sw":
		return genSwListOp(r, "sw")
	}
	return op
}

// prelude: exhaustive byte-string lengths 0..80 for every byte-string setter
type histPrelude struct {
	obj, k string
	first  byte
}

var histPreludes = func() []histPrelude {
	var out []histPrelude
	for _, o := range []string{"p1", "p2", "xp2"} {
		for _, k := range []string{"impl", "seed", "nonce"} {
			out = append(out, histPrelude{o, k, 0})
		}
		out = append(out, histPrelude{o, "inst", 0x01}, histPrelude{o, "inst", 0x02})
	}
	out = append(out, histPrelude{"comp", "mv", 0}, histPrelude{"comp", "sid", 0})
	return out
}()

func (histWorld) Gen(prop, tier string, idx int, r *Rng) *Trace {
	if idx < len(histPreludes) {
		p := histPreludes[idx]
		cj, _ := json.Marshal(HistCfg{Obj: p.obj})
		var ops []Op
		for l := 0; l <= 80; l++ {
			x := r.Bytes(l)
			if p.first != 0 && l > 0 {
				x[0] = p.first
			}
			ops = append(ops, Op{K: p.k, X: x})
		}
		return &Trace{World: "W-HIST", Cfg: cj, Ops: ops}
	}
	obj := []string{"p1", "p2", "p1", "p2", "xp2", "xp1", "comp", "cont"}[r.Intn(8)]
	hc := HistCfg{Obj: obj}
	if obj != "comp" && obj != "cont" && r.Chance(1, 3) {
		d := genValidClaims(r, obj)
		if r.Chance(1, 4) {
			d = genInvalidClaims(r, obj)
		}
		hc.Start = &d
	}
	cj, _ := json.Marshal(hc)
	n := r.Range(1, 40)
	var ops []Op
	for i := 0; i < n; i++ {
		op := genHistOp(r, obj)
		if len(op.X) > 0 && r.Chance(1, 4) {
			op.C = 1 // pass the very slice the previous byte-string call was given (caller-side aliasing)
		}
		ops = append(ops, op)
	}
	// repetition bias: re-issue an earlier call now and then
	for i := 1; i < len(ops); i++ {
		if r.Chance(1, 8) {
			ops[i] = ops[r.Intn(i)]
		}
	}
	if hc.Start != nil {
		// hand a setter the very value the (decoded, possibly invalid) claims-set already holds
		d := hc.Start
		var re []Op
		if d.ImplID != nil && r.Chance(1, 3) {
			re = append(re, Op{K: "impl", X: append(HexBytes{}, (*d.ImplID)...)})
		}
		if d.BootSeed != nil && r.Chance(1, 3) {
			re = append(re, Op{K: "seed", X: append(HexBytes{}, (*d.BootSeed)...)})
		}
		if d.Nonce != nil && r.Chance(1, 3) {
			re = append(re, Op{K: "nonce", X: append(HexBytes{}, (*d.Nonce)...)})
		}
		if d.InstID != nil && r.Chance(1, 3) {
			re = append(re, Op{K: "inst", X: append(HexBytes{}, (*d.InstID)...)})
		}
		if d.CertRef != nil && r.Chance(1, 3) {
			re = append(re, Op{K: "cert", S: *d.CertRef})
		}
		if d.VSI != nil && r.Chance(1, 3) {
			re = append(re, Op{K: "vsi", S: *d.VSI})
		}
		if d.Lifecycle != nil && r.Chance(1, 3) {
			re = append(re, Op{K: "lc", A: int(*d.Lifecycle)})
		}
		if len(re) > 0 {
			// early, before other calls overwrite the start state
			at := r.Intn(minInt(len(ops), 3) + 1)
			ops = append(ops[:at], append(re, ops[at:]...)...)
		}
	}
	if obj != "cont" {
		ops = append(ops, Op{K: "rebuild", L: r.Perm(12), A: r.Intn(3)})
	}
	return &Trace{World: "W-HIST", Cfg: cj, Ops: ops}
}

// ---- probes

var histBaseCache = map[string]*ClaimsDesc{}

// histBase returns a description of the given family that the library itself
// considers valid (nil if none of the candidates is).
func histBase(prof string) *ClaimsDesc {
	if d, ok := histBaseCache[prof]; ok {
		return d
	}
	for seed := uint64(0xC11); seed < 0xC11+40; seed++ {
		d := genValidClaims(NewRng(seed), prof)
		if len(d.Sw) == 0 {
			continue
		}
		c, err := d.build()
		if err != nil {
			continue
		}
		if safely(func() string { return ec(c.Validate()) }) == "ok" {
			histBaseCache[prof] = &d
			return &d
		}
	}
	histBaseCache[prof] = nil
	return nil
}

// opStr: the string argument of an operation (bytes in X when it is not valid UTF-8).
func opStr(op Op) string {
	if op.K == "vsi" && len(op.X) > 0 {
		return string(op.X)
	}
	return op.S
}

func opBytes(op Op) []byte {
	if op.D == 1 && len(op.X) == 0 {
		return nil
	}
	return append([]byte{}, op.X...)
}

func opSwList(op Op) ([]SwDesc, bool) {
	var l []SwDesc
	if op.S == "" {
		return nil, true
	}
	if err := json.Unmarshal([]byte(op.S), &l); err != nil {
		return nil, false
	}
	return l, true
}

// probeWith returns a copy of base in which the claim named by op.K carries
// op's value (placed there without any setter).
func probeWith(base *ClaimsDesc, op Op) (*ClaimsDesc, bool) {
	b, _ := json.Marshal(base)
	var d ClaimsDesc
	_ = json.Unmarshal(b, &d)
	p1 := d.Prof == "p1" || d.Prof == "xp1"
	switch op.K {
	case "cid":
		v := int32(op.A)
		d.ClientID = &v
	case "lc":
		v := uint16(op.A)
		d.Lifecycle = &v
	case "impl":
		d.ImplID = hp(opBytes(op))
	case "seed":
		d.BootSeed = hp(opBytes(op))
	case "nonce":
		d.Nonce = hp(opBytes(op))
	case "inst":
		d.InstID = hp(opBytes(op))
	case "cert":
		d.CertRef = sp(op.S)
	case "vsi":
		d.VSI = sp(opStr(op))
	case "sw":
		l, ok := opSwList(op)
		if !ok {
			return nil, false
		}
		d.Sw = l
		d.NoMeas = nil
		d.SwNil = false
		if op.D == 1 {
			d.Sw = nil
			d.SwNil = true
			if p1 {
				one := uint(1)
				d.NoMeas = &one
			}
		}
	default:
		return nil, false
	}
	return &d, true
}

func dropClaim(base *ClaimsDesc, k string) *ClaimsDesc {
	b, _ := json.Marshal(base)
	var d ClaimsDesc
	_ = json.Unmarshal(b, &d)
	switch k {
	case "cid":
		d.ClientID = nil
	case "lc":
		d.Lifecycle = nil
	case "impl":
		d.ImplID = nil
	case "seed":
		d.BootSeed = nil
	case "nonce":
		d.Nonce = nil
	case "inst":
		d.InstID = nil
	case "cert":
		d.CertRef = nil
	case "vsi":
		d.VSI = nil
	case "sw":
		d.Sw = nil
		d.NoMeas = nil
	}
	return &d
}

// validationAccepts: does the profile's own validation accept the value for
// that claim on an otherwise valid claims-set? known=false when no valid base
// exists (then the accept-iff clause is not evaluated).
func validationAccepts(prof string, op Op) (accepts, known bool) {
	base := histBase(prof)
	if base == nil {
		return false, false
	}
	d, ok := probeWith(base, op)
	if !ok {
		return false, false
	}
	c, err := d.build()
	if err != nil {
		// no claims-set of this profile can carry the value at all
		return false, true
	}
	return safely(func() string { return ec(c.Validate()) }) == "ok", true
}

var mandatoryCache = map[string]map[string]bool{}

func mandatoryClaims(prof string) map[string]bool {
	if m, ok := mandatoryCache[prof]; ok {
		return m
	}
	base := histBase(prof)
	if base == nil {
		mandatoryCache[prof] = nil
		return nil
	}
	m := map[string]bool{}
	for _, k := range histClaimOps {
		c, err := dropClaim(base, k).build()
		if err != nil {
			continue
		}
		if safely(func() string { return ec(c.Validate()) }) != "ok" {
			m[k] = true
		}
	}
	mandatoryCache[prof] = m
	return m
}

var baseComp = SwDesc{MVal: hp(make([]byte, 32)), Signer: hp(make([]byte, 48)), MType: sp("BL")}

func compAccepts(op Op) bool {
	d := baseComp
	switch op.K {
	case "mt":
		d.MType = sp(op.S)
	case "ver":
		d.Version = sp(op.S)
	case "md":
		d.MDesc = sp(op.S)
	case "mv":
		d.MVal = hp(opBytes(op))
	case "sid":
		d.Signer = hp(opBytes(op))
	}
	return safely(func() string { return ec(buildSwComponent(d).Validate()) }) == "ok"
}

func swListObs(l []SwDesc) string {
	var sb strings.Builder
	for _, d := range l {
		sb.WriteString(obsSw(buildSwComponent(d)))
	}
	return sb.String()
}

func obsComp(c *psatoken.SwComponent) string {
	g := obsSw(c)
	v := safely(func() string { return ec(c.Validate()) })
	cb := safely(func() string {
		b, err := xem.Marshal(c)
		if err != nil {
			return "err"
		}
		return hex.EncodeToString(b)
	})
	js := safely(func() string {
		b, err := json.Marshal(c)
		if err != nil {
			return "err"
		}
		return string(b)
	})
	return g + "|" + v + "|" + cb + "|" + js
}

func obsCont(c *psatoken.SwComponents[*psatoken.SwComponent]) string {
	vals := safely(func() string {
		vs, err := c.Values()
		s := ec(err) + "["
		for _, v := range vs {
			s += obsSw(v)
		}
		return s + "]"
	})
	v := safely(func() string { return ec(c.Validate()) })
	e := safely(func() string { return fmt.Sprint(c.IsEmpty()) })
	cb := safely(func() string {
		b, err := c.MarshalCBOR()
		if err != nil {
			return "err"
		}
		return hex.EncodeToString(b)
	})
	js := safely(func() string {
		b, err := c.MarshalJSON()
		if err != nil {
			return "err"
		}
		return string(b)
	})
	return vals + "|" + v + "|" + e + "|" + cb + "|" + js
}

func claimIndex(k string) int {
	for i, n := range claimNames {
		if n == k {
			return i
		}
	}
	return -1
}

func newHistClaims(obj string, start *ClaimsDesc) (c psatoken.IClaims, err error) {
	defer func() {
		if r := recover(); r != nil {
			c, err = nil, fmt.Errorf("panic: %v", r)
		}
	}()
	c, err = psatoken.NewClaims(profileNameOf(obj))
	if err != nil || start == nil {
		return c, err
	}
	src, berr := start.build()
	if berr != nil {
		return c, nil
	}
	b, eerr := psatoken.EncodeClaimsToCBOR(src)
	if eerr != nil {
		return c, nil
	}
	if u, ok := c.(interface{ UnmarshalCBOR([]byte) error }); ok {
		if uerr := u.UnmarshalCBOR(b); uerr != nil {
			// not decodable: start from the fresh object after all
			return psatoken.NewClaims(profileNameOf(obj))
		}
	}
	return c, nil
}

// histArg, when non-nil, is the slice a byte-string setter is handed instead
// of a fresh copy of the operation's bytes (caller-side aliasing).
var histArg []byte

func isByteSetter(k string) bool {
	return k == "impl" || k == "seed" || k == "nonce" || k == "inst"
}

func setterBytes(op Op) []byte {
	if histArg != nil {
		return histArg
	}
	return opBytes(op)
}

// callSetter applies op to c through the public setter.
func callSetter(c psatoken.IClaims, op Op) (err error, applicable bool) {
	defer func() {
		if r := recover(); r != nil {
			err = fmt.Errorf("panic: %v", r)
			applicable = true
		}
	}()
	switch op.K {
	case "cid":
		return c.SetClientID(int32(op.A)), true
	case "lc":
		return c.SetSecurityLifeCycle(uint16(op.A)), true
	case "impl":
		return c.SetImplID(setterBytes(op)), true
	case "seed":
		return c.SetBootSeed(setterBytes(op)), true
	case "nonce":
		return c.SetNonce(setterBytes(op)), true
	case "inst":
		return c.SetInstID(setterBytes(op)), true
	case "cert":
		return c.SetCertificationReference(op.S), true
	case "vsi":
		return c.SetVSI(opStr(op)), true
	case "sw":
		l, ok := opSwList(op)
		if !ok {
			return nil, false
		}
		switch op.D {
		case 1:
			return c.SetSoftwareComponents(nil), true
		case 2:
			return c.SetSoftwareComponents([]psatoken.ISwComponent{}), true
		}
		if len(l) == 0 {
			return nil, false
		}
		return c.SetSoftwareComponents(swToIface(l)), true
	}
	return nil, false
}

// expectedGetter renders what the matching getter must show after a
// successful set (same format as getterList's entry).
func expectedGetter(op Op) string {
	switch op.K {
	case "cid":
		return fmt.Sprintf("cid=%d/ok", int32(op.A))
	case "lc":
		return fmt.Sprintf("lc=%d/ok", uint16(op.A))
	case "impl":
		return fmt.Sprintf("impl=%x/ok", opBytes(op))
	case "seed":
		return fmt.Sprintf("seed=%x/ok", opBytes(op))
	case "nonce":
		return fmt.Sprintf("nonce=%x/ok", opBytes(op))
	case "inst":
		return fmt.Sprintf("inst=%x/ok", opBytes(op))
	case "cert":
		return fmt.Sprintf("cert=%q/ok", op.S)
	case "vsi":
		return fmt.Sprintf("vsi=%q/ok", opStr(op))
	case "sw":
		l, _ := opSwList(op)
		if op.D == 1 {
			l = nil
		}
		return fmt.Sprintf("sw=%d/ok[%s]", len(l), swListObs(l))
	}
	return ""
}

func (histWorld) Exec(prop string, t *Trace) *Result {
	res := newResult()
	var cfg HistCfg
	if err := json.Unmarshal(t.Cfg, &cfg); err != nil {
		res.Fatal = "bad cfg: " + err.Error()
		return res
	}
	registerSimProfiles()
	disarmCodec()
	switch cfg.Obj {
	case "comp":
		execHistComp(res, t)
	case "cont":
		execHistCont(res, t)
	default:
		execHistClaims(res, t, cfg.Obj, cfg.Start)
	}
	res.Shape = hash64(cfg.Obj, res.shapeAcc)
	return res
}

func execHistClaims(res *Result, t *Trace, obj string, start *ClaimsDesc) {
	c, err := newHistClaims(obj, start)
	if err != nil {
		res.Fatal = "NewClaims: " + err.Error()
		return
	}
	lastOK := map[string]Op{}
	accepted, rejected := 0, 0
	var held []byte
	var swEdits []Op // in-place component edits since the last successful SetSoftwareComponents
	// "every mandatory claim set successfully => validates" speaks about a claims-set whose
	// claims all came through the setters; a decoded starting state that is itself invalid
	// (say, a malformed optional claim no later call touches) is outside it.
	startValid := true
	if start != nil {
		res.Probes["decoded_start_state"]++
		startValid = safely(func() string { return ec(c.Validate()) }) == "ok"
	}
	// struct copies of the claims-set taken along the way (next := *claims): the pointer-replacing
	// setters leave them alone (the component container is shared by such a copy, so the component
	// claim is left out of the comparison)
	type fork struct {
		c   psatoken.IClaims
		obs string
		at  int
	}
	var forks []*fork
	forkObs := func(c psatoken.IClaims) string {
		l := getterList(c)
		var keep []string
		for j, e := range l {
			if j != claimIndex("sw") {
				keep = append(keep, e)
			}
		}
		return strings.Join(keep, ";")
	}
	for i, op := range t.Ops {
		res.OpsRun++
		res.Steps++
		if op.K == "fork" {
			func() {
				defer func() { _ = recover() }()
				v := reflect.ValueOf(c)
				if v.Kind() != reflect.Ptr || v.IsNil() {
					return
				}
				n := reflect.New(v.Elem().Type())
				n.Elem().Set(v.Elem())
				if fc, ok := n.Interface().(psatoken.IClaims); ok {
					forks = append(forks, &fork{c: fc, obs: forkObs(fc), at: i})
					res.Probes["claims_struct_copies"]++
				}
			}()
			continue
		}
		if op.K == "rebuild" {
			// order / repetition independence: last successful call per claim on a fresh object
			fresh, err := newHistClaims(obj, start)
			if err != nil {
				break
			}
			var ks []string
			for _, k := range histClaimOps {
				if _, ok := lastOK[k]; ok {
					ks = append(ks, k)
				}
			}
			order := make([]string, 0, len(ks))
			for _, p := range op.L {
				if p >= 0 && p < len(ks) && ks[p] != "" {
					order = append(order, ks[p])
					ks[p] = ""
				}
			}
			for _, k := range ks {
				if k != "" {
					order = append(order, k)
				}
			}
			reps := 1 + op.A%3
			for rep := 0; rep < reps; rep++ {
				for _, k := range order {
					if e, _ := callSetter(fresh, lastOK[k]); e != nil {
						res.violate("C11", "replay-of-accepted-call-fails", "", i, "a %s call that succeeded during the history fails on a fresh claims-set: %v", k, e)
					}
				}
			}
			for _, e := range swEdits {
				applySwEdit(fresh, e)
			}
			res.Evals++
			if a, b := fullObs(c), fullObs(fresh); a != b {
				res.violate("C11", "encoding-depends-on-history", "", i, "a claims-set rebuilt from the last successful call per claim (order %v, x%d) differs from the one that went through the history:\n history: %s\n rebuilt: %s", order, reps, a, b)
			}
			res.Probes["rebuild_compared"]++
			continue
		}
		if op.K == "swslice" {
			// the caller writes into the SLICE the getter handed out (re-uses it, sorts it, filters it in place):
			// that slice is the caller's; the claims-set must not change
			before := fullObs(c)
			func() {
				defer func() { _ = recover() }()
				scs, err := c.GetSoftwareComponents()
				if err != nil || len(scs) == 0 {
					return
				}
				other := buildSwComponent(SwDesc{MVal: hp(make([]byte, 32)), Signer: hp(make([]byte, 32)), Version: sp("someone else's")})
				scs[abs(op.A)%len(scs)] = other
				if len(scs) > 1 {
					scs[0], scs[len(scs)-1] = scs[len(scs)-1], scs[0]
				}
				res.Probes["wrote_into_returned_component_slice"]++
			}()
			res.Evals++
			if after := fullObs(c); after != before {
				res.violate("C11", "returned-slice-aliases-claims", "", i, "writing into the slice returned by GetSoftwareComponents changed the claims-set:\n before: %s\n after:  %s", before, after)
			}
			continue
		}
		if op.K == "swedit" {
			applySwEdit(c, op)
			swEdits = append(swEdits, op)
			res.Evals++
			res.Probes["component_edited_in_place"]++
			checkEncodingReflectsGetters(res, i, c, obj)
			continue
		}
		if isByteSetter(op.K) {
			if op.C == 1 && held != nil {
				// same slice object as the previous byte-string call; its content is the value
				op.X = append(HexBytes{}, held...)
				op.D = 0
				histArg = held
				res.Probes["aliased_argument"]++
			} else {
				histArg = opBytes(op)
			}
			held = histArg
		}
		before := fullObs(c)
		beforeG := getterList(c)
		beforeS := structObs(c)
		err, ok := callSetter(c, op)
		histArg = nil
		if !ok {
			continue
		}
		afterS := structObs(c)
		after := fullObs(c)
		for _, fk := range forks {
			if now := forkObs(fk.c); now != fk.obs {
				res.violate("C11", "setter-writes-through-shared-pointer", obj+"."+op.K, i, "a struct copy of the claims-set taken at step %d changed when %s was called on the original:\n was: %s\n now: %s", fk.at, op.K, fk.obs, now)
				fk.obs = now
			}
		}
		if err != nil && beforeS != afterS {
			// a failed setter that rewrote an exported field (reported by the before/after comparison below)
			before += "|struct=" + beforeS
			after += "|struct=" + afterS
		}
		afterG := getterList(c)
		res.Evals++
		res.logf("%d %s err=%s", i, op.K, okOrErr(err))
		if err != nil && strings.HasPrefix(err.Error(), "panic: ") {
			res.violate("C11", "setter-panics", fmt.Sprintf("%s.%s", obj, op.K), i, "%s setter %s did not return: %v (value: %s)", obj, op.K, err, opValue(op))
		}
		res.shapeAcc += op.K + okOrErr(err) + ","
		isClear := op.K == "sw" && op.D == 2
		// the specific call site (profile.setter, .nil for the nil list) identifies a finding
		sig := fmt.Sprintf("%s.%s", obj, op.K)
		if op.K == "sw" && op.D == 1 {
			sig += ".nil"
		}
		if !isClear {
			if acc, known := validationAccepts(obj, op); known {
				if acc && err != nil {
					res.violate("C11", "setter-rejects-what-validation-accepts", sig, i, "%s setter %s rejected a value (%s) that the profile's validation accepts on an otherwise valid claims-set: %v", obj, op.K, opValue(op), err)
				}
				if !acc && err == nil {
					res.violate("C11", "setter-accepts-what-validation-rejects", sig, i, "%s setter %s accepted a value (%s) that the profile's validation rejects on an otherwise valid claims-set", obj, op.K, opValue(op))
				}
				if acc {
					accepted++
				} else {
					rejected++
				}
			} else {
				res.Probes["no_valid_base"]++
			}
		}
		if op.K == "sw" && op.D == 0 {
			// the exported stand-alone validator for this claim must agree with the setter
			if l, ok := opSwList(op); ok && len(l) > 0 {
				verr := safely(func() string { return okOrErr(psatoken.ValidateSwComponents(swToIface(l))) })
				res.Probes["standalone_validator_compared"]++
				if (verr == "ok") != (err == nil) {
					res.violate("C11", "setter-disagrees-with-standalone-validator", sig, i, "%s SetSoftwareComponents returned %v for a list on which ValidateSwComponents returns %s (value: %s)", obj, err, verr, opValue(op))
				}
			}
		}
		if isClear {
			// whatever it returns, a clear must leave zero components
			scs, _ := c.GetSoftwareComponents()
			if len(scs) != 0 {
				res.violate("C11", "clear-leaves-components", sig, i, "SetSoftwareComponents([]) (err=%v) left %d components in place", err, len(scs))
			}
			res.Probes["sw_clear"]++
			if err != nil {
				res.Probes["sw_clear_returned_error"]++
				continue
			}
		}
		if err != nil {
			if before != after {
				res.violate("C11", "failed-setter-changed-object", sig, i, "%s setter %s failed (%v) but the claims-set changed:\n before: %s\n after:  %s", obj, op.K, err, before, after)
			}
			res.Probes["setter_failed"]++
			continue
		}
		res.Probes["setter_ok"]++
		lastOK[op.K] = op
		if op.K == "sw" {
			swEdits = nil
		}
		checkEncodingReflectsGetters(res, i, c, obj)
		ci := claimIndex(op.K)
		if isClear {
			// checked above
		} else if ci >= 0 && ci < len(afterG) {
			if want := expectedGetter(op); afterG[ci] != want {
				res.violate("C11", "getter-differs-from-set-value", sig, i, "after a successful %s the getter shows %s, want %s", op.K, afterG[ci], want)
			}
		}
		for j := range beforeG {
			if j == ci || j >= len(afterG) {
				continue
			}
			if beforeG[j] != afterG[j] {
				res.violate("C11", "setter-changed-other-claim", sig, i, "successful %s changed another claim: %s -> %s", op.K, beforeG[j], afterG[j])
			}
		}
		// every mandatory claim set successfully => validates
		if m := mandatoryClaims(obj); m != nil && startValid {
			all := true
			for k := range m {
				lo, ok := lastOK[k]
				if !ok || (k == "sw" && lo.D == 2) {
					all = false
				}
			}
			if all {
				res.Probes["all_mandatory_set"]++
				if v := safely(func() string { return ec(c.Validate()) }); v != "ok" {
					msig := obj
					if lo := lastOK["sw"]; lo.D == 1 {
						msig = obj + ".sw.nil"
					}
					res.violate("C11", "all-mandatory-set-but-invalid", msig, i, "every mandatory claim was set successfully, yet Validate() = %s", v)
				}
			}
		}
	}
	res.NonTrivial = accepted > 0 && rejected > 0
}

func opValue(op Op) string {
	switch op.K {
	case "cid", "lc":
		return fmt.Sprint(op.A)
	case "cert", "vsi", "mt", "ver", "md":
		return fmt.Sprintf("%q", opStr(op))
	case "sw", "add", "replace":
		if op.D == 1 {
			return "nil list"
		}
		if op.D == 2 {
			return "empty list"
		}
		return op.S
	}
	if op.D == 1 && len(op.X) == 0 {
		return "nil bytes"
	}
	return fmt.Sprintf("%d bytes %x", len(op.X), []byte(op.X))
}

func execHistComp(res *Result, t *Trace) {
	c := &psatoken.SwComponent{}
	lastOK := map[string]Op{}
	accepted, rejected := 0, 0
	call := func(sc *psatoken.SwComponent, op Op) (error, bool) {
		switch op.K {
		case "mt":
			return sc.SetMeasurementType(op.S), true
		case "ver":
			return sc.SetVersion(op.S), true
		case "md":
			return sc.SetMeasurementDesc(op.S), true
		case "mv":
			return sc.SetMeasurementValue(opBytes(op)), true
		case "sid":
			return sc.SetSignerID(opBytes(op)), true
		}
		return nil, false
	}
	// struct copies of the component taken along the way (b := a): the pointer-replacing setters
	// leave them alone
	type sibling struct {
		c    psatoken.SwComponent
		obs  string
		at   int
	}
	var siblings []*sibling
	for i, op := range t.Ops {
		res.OpsRun++
		res.Steps++
		if op.K == "sibling" {
			sb := &sibling{c: *c, at: i}
			sb.obs = obsComp(&sb.c)
			siblings = append(siblings, sb)
			res.Probes["component_struct_copies"]++
			continue
		}
		if op.K == "rebuild" {
			fresh := &psatoken.SwComponent{}
			var ks []string
			for _, k := range histCompOps {
				if _, ok := lastOK[k]; ok {
					ks = append(ks, k)
				}
			}
			for _, p := range op.L {
				if p >= 0 && p < len(ks) && ks[p] != "" {
					_, _ = call(fresh, lastOK[ks[p]])
					ks[p] = ""
				}
			}
			for _, k := range ks {
				if k != "" {
					_, _ = call(fresh, lastOK[k])
				}
			}
			res.Evals++
			if a, b := obsComp(c), obsComp(fresh); a != b {
				res.violate("C11", "component-encoding-depends-on-history", "", i, "component rebuilt from the last successful call per field differs:\n history: %s\n rebuilt: %s", a, b)
			}
			continue
		}
		before := obsComp(c)
		err, ok := call(c, op)
		if !ok {
			continue
		}
		after := obsComp(c)
		res.Evals++
		for _, sb := range siblings {
			if now := obsComp(&sb.c); now != sb.obs {
				res.violate("C11", "setter-writes-through-shared-pointer", "component."+op.K, i, "a struct copy of the component taken at step %d changed when %s was called on the original:\n was: %s\n now: %s", sb.at, op.K, sb.obs, now)
				sb.obs = now
			}
		}
		res.shapeAcc += op.K + okOrErr(err) + ","
		acc := compAccepts(op)
		if acc {
			accepted++
		} else {
			rejected++
		}
		if acc && err != nil {
			res.violate("C11", "component-setter-rejects-valid", "comp."+op.K, i, "component setter %s rejected %s which component validation accepts: %v", op.K, opValue(op), err)
		}
		if !acc && err == nil {
			res.violate("C11", "component-setter-accepts-invalid", "comp."+op.K, i, "component setter %s accepted %s which component validation rejects", op.K, opValue(op))
		}
		if err != nil {
			if before != after {
				res.violate("C11", "failed-component-setter-changed-object", "", i, "component setter %s failed but the component changed:\n %s\n %s", op.K, before, after)
			}
			continue
		}
		lastOK[op.K] = op
		// getter returns exactly the value; nothing else moved
		var got, want string
		switch op.K {
		case "mt":
			v, e := c.GetMeasurementType()
			got, want = fmt.Sprintf("%q/%s", v, ec(e)), fmt.Sprintf("%q/ok", op.S)
		case "ver":
			v, e := c.GetVersion()
			got, want = fmt.Sprintf("%q/%s", v, ec(e)), fmt.Sprintf("%q/ok", op.S)
		case "md":
			v, e := c.GetMeasurementDesc()
			got, want = fmt.Sprintf("%q/%s", v, ec(e)), fmt.Sprintf("%q/ok", op.S)
		case "mv":
			v, e := c.GetMeasurementValue()
			got, want = fmt.Sprintf("%x/%s", v, ec(e)), fmt.Sprintf("%x/ok", opBytes(op))
		case "sid":
			v, e := c.GetSignerID()
			got, want = fmt.Sprintf("%x/%s", v, ec(e)), fmt.Sprintf("%x/ok", opBytes(op))
		}
		if got != want {
			res.violate("C11", "component-getter-differs-from-set-value", "", i, "after a successful %s the getter shows %s, want %s", op.K, got, want)
		}
		if _, ok1 := lastOK["mv"]; ok1 {
			if _, ok2 := lastOK["sid"]; ok2 {
				if v := safely(func() string { return ec(c.Validate()) }); v != "ok" {
					res.violate("C11", "component-mandatory-set-but-invalid", "", i, "both mandatory fields were set successfully, yet Validate() = %s", v)
				}
			}
		}
	}
	res.NonTrivial = accepted > 0 && rejected > 0
}

func execHistCont(res *Result, t *Trace) {
	c := &psatoken.SwComponents[*psatoken.SwComponent]{}
	var model []SwDesc
	okCalls, failCalls := 0, 0
	for i, op := range t.Ops {
		res.OpsRun++
		res.Steps++
		if op.K != "add" && op.K != "replace" {
			continue
		}
		l, ok := opSwList(op)
		if !ok {
			continue
		}
		before := obsCont(c)
		var err error
		vals := swToIface(l)
		if op.D == 1 {
			vals = nil
		} else if op.D == 2 {
			vals = []psatoken.ISwComponent{}
		}
		func() {
			defer func() {
				if r := recover(); r != nil {
					err = fmt.Errorf("panic: %v", r)
				}
			}()
			if op.K == "add" {
				err = c.Add(vals...)
			} else {
				err = c.Replace(vals)
			}
		}()
		after := obsCont(c)
		res.Evals++
		res.shapeAcc += op.K + okOrErr(err) + ","
		// every element valid (by the component's own validation)?
		allValid := true
		for _, d := range l {
			if safely(func() string { return ec(buildSwComponent(d).Validate()) }) != "ok" {
				allValid = false
			}
		}
		if allValid && err != nil {
			res.violate("C11", "container-rejects-valid-components", "", i, "%s of %d valid components failed: %v", op.K, len(l), err)
		}
		if !allValid && err == nil {
			res.violate("C11", "container-accepts-invalid-component", "", i, "%s succeeded although a component fails its own validation: %s", op.K, op.S)
		}
		if err != nil {
			failCalls++
			if before != after {
				res.violate("C11", "failed-container-call-changed-container", "", i, "%s failed but the container changed:\n before: %s\n after:  %s", op.K, before, after)
			}
			continue
		}
		okCalls++
		if op.K == "add" {
			model = append(append([]SwDesc{}, model...), l...)
		} else {
			model = append([]SwDesc{}, l...)
		}
		want := "ok[" + swListObs(model) + "]"
		got := strings.SplitN(after, "|", 2)[0]
		if got != want {
			res.violate("C11", "container-contents-wrong", "", i, "after %s the container holds %s, want %s", op.K, got, want)
		}
	}
	res.NonTrivial = okCalls > 0 && failCalls > 0
}

func (histWorld) Simplify(o Op) []Op {
	var out []Op
	if len(o.L) > 0 {
		c := o
		c.L = nil
		c.A = 0
		out = append(out, c)
	}
	if o.K == "sw" || o.K == "add" || o.K == "replace" {
		if l, ok := opSwList(o); ok && len(l) > 1 {
			for i := range l {
				c := o
				b, _ := json.Marshal(append(append([]SwDesc{}, l[:i]...), l[i+1:]...))
				c.S = string(b)
				out = append(out, c)
			}
		}
	}
	return out
}

// applySwEdit updates one component of c in place through the component's own setter.
func applySwEdit(c psatoken.IClaims, op Op) {
	defer func() { _ = recover() }()
	scs, err := c.GetSoftwareComponents()
	if err != nil || len(scs) == 0 {
		return
	}
	sc := scs[abs(op.A)%len(scs)]
	switch abs(op.B) % 3 {
	case 0:
		_ = sc.SetVersion(op.S)
	case 1:
		_ = sc.SetMeasurementDesc(op.S)
	default:
		_ = sc.SetMeasurementValue(append([]byte{}, op.X...))
	}
}

// checkEncodingReflectsGetters: "the encoding depends only on the final
// values" - what the CBOR and JSON encodings carry must be what the getters
// show right now: the encoding, decoded into a fresh object of the same type,
// must give the same getter results (when it encodes and decodes at all).
func checkEncodingReflectsGetters(res *Result, i int, c psatoken.IClaims, obj string) {
	defer func() { _ = recover() }()
	want := getterObs(c)
	if v, err := c.GetVSI(); err == nil && !utf8.ValidString(v) {
		// a text claim that is not well-formed UTF-8 cannot travel in either serialisation (JSON
		// replaces the bytes, CBOR decoders refuse the text string); whether a setter should take
		// such a value is a validity rule (C01), not this property
		res.Probes["encoding_check_skipped_non_utf8_text"]++
		return
	}
	if b, err := psatoken.EncodeClaimsToCBOR(c); err == nil {
		if f, ferr := newHistClaims(obj, nil); ferr == nil {
			if u, ok := f.(interface{ UnmarshalCBOR([]byte) error }); ok && u.UnmarshalCBOR(b) == nil {
				res.Evals++
				if got := getterObs(f); got != want {
					res.violate("C11", "encoding-does-not-reflect-current-values", "", i, "the CBOR encoding of the claims-set, decoded into a fresh %s object, does not show what the getters show now:\n getters:  %s\n encoding: %s", obj, want, got)
				}
			}
		}
	}
	if b, err := psatoken.EncodeClaimsToJSON(c); err == nil {
		if f, ferr := newHistClaims(obj, nil); ferr == nil {
			if u, ok := f.(interface{ UnmarshalJSON([]byte) error }); ok && u.UnmarshalJSON(b) == nil {
				res.Evals++
				if got := getterObs(f); got != want {
					res.violate("C11", "encoding-does-not-reflect-current-values", "", i, "the JSON encoding of the claims-set, decoded into a fresh %s object, does not show what the getters show now:\n getters:  %s\n encoding: %s", obj, want, got)
				}
			}
		}
	}
}

func minInt(a, b int) int {
	if a < b {
		return a
	}
	return b
}
