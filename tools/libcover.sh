#!/bin/bash
# tools/libcover.sh [ids...]  - diagnostic, not a check: which statements of the
# library do the simulated worlds actually execute?  Builds the harness once
# with Go's coverage instrumentation over the (T1-woven) library packages, runs
# the quick tier of each listed check with GOCOVERDIR set, merges the counters
# and prints every library block no world reached, with its source line.
# Unreached blocks are where a change can hide from every oracle; the list is
# what workload extensions are driven from (DESIGN.md section 7.3).
set -u
VERIF="$(cd "$(dirname "${BASH_SOURCE[0]}")/.." && pwd)"
REPO="${VERIF_REPO:-/repo}"
export GOFLAGS=-mod=mod GOPROXY=off GOSUMDB=off GOTOOLCHAIN=local CGO_ENABLED=1
GO126="${VERIF_GO:-go1.26.8}"
ids="${@:-C19 C08 C03 C11 C02 C18 C05 C16 C07}"
S="$(mktemp -d /var/tmp/verif-cover-XXXXXX)"; trap 'rm -rf "$S"' EXIT
"$VERIF/.bin/simbuild" -src "$REPO" -dst "$S/src" -simrt "$VERIF/simrt" -harness "$VERIF/harness" -hooks "$VERIF/hooks" >"$S/simbuild.log" 2>&1 || { cat "$S/simbuild.log"; exit 2; }
( cd "$S/src" && "$GO126" build -cover -tags verif -o "$S/harness" ./zzverif/harness ) || exit 2
mkdir -p "$S/out/evidence" "$S/out/replays"
for id in $ids; do
  mkdir -p "$S/cov/$id"
  GOCOVERDIR="$S/cov/$id" "$S/harness" -prop "$id" -tier quick -evidence "$S/out/evidence/$id.json" -replays "$S/out/replays" \
    -findings "$VERIF/known_findings.json" -sites "$S/src/zzverif/sites.json" >"$S/out/$id.log" 2>&1
  echo "ran $id exit=$? $(ls "$S/cov/$id" | wc -l) counter files"
done
dirs="$(ls -d "$S"/cov/* | paste -sd, -)"
( cd "$S/src" && "$GO126" tool covdata textfmt -i="$dirs" -o="$S/all.txt" )
for id in $ids; do ( cd "$S/src" && "$GO126" tool covdata textfmt -i="$S/cov/$id" -o="$S/$id.txt" ); done
python3 - "$S" $ids <<'PY'
import sys,re,collections
S=sys.argv[1]; ids=sys.argv[2:]
def load(p):
    d={}
    for ln in open(p):
        if ln.startswith('mode:'): continue
        m=re.match(r'(.*):(\d+)\.(\d+),(\d+)\.(\d+) (\d+) (\d+)',ln)
        f,l0,c0,l1,c1,n,cnt=m.groups()
        if '/zzverif/' in f or '/simrt/' in f or 'zz_verif' in f or f.endswith('test_common.go'): continue
        k=(f,int(l0),int(c0),int(l1),int(c1))
        d[k]=max(d.get(k,0),int(cnt))
    return d
allc=load(S+'/all.txt')
per={i:load(S+'/'+i+'.txt') for i in ids}
tot=len(allc); hit=sum(1 for v in allc.values() if v)
print(f"library blocks: {tot}, reached by at least one world: {hit} ({100*hit/tot:.1f}%)")
for i in ids:
    h=sum(1 for v in per[i].values() if v); print(f"  {i}: {h} blocks")
src={}
def line(f,l):
    p=S+'/src/'+f.split('github.com/veraison/psatoken/')[-1]
    if p not in src:
        try: src[p]=open(p).read().split('\n')
        except Exception: src[p]=[]
    return src[p][l-1].strip() if l-1<len(src[p]) else ''
print("unreached blocks:")
for k in sorted(allc):
    if allc[k]==0:
        f,l0,c0,l1,c1=k
        print(f"  {f.split('psatoken/')[-1]}:{l0}-{l1}  {line(f,l0)[:110]}")
PY
