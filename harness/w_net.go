package main

import (
	"bytes"
	"encoding/json"
	"fmt"

	cose "github.com/veraison/go-cose"
	psatoken "github.com/veraison/psatoken"
)

// W-NET: attesters sign and emit tokens, a channel holds them in flight and
// damages / splices / misroutes them, verifiers holding one public key each
// consume them. Serves C02 (nothing that was not genuinely signed by that key
// is ever accepted) and C03 (everything that was, un-damaged, is accepted and
// decodes to the claims that were validated and signed).

type NetAttester struct {
	Signer     SignerSpec   `json:"signer"`
	Claims     []ClaimsDesc `json:"claims"`
	ViaSetters bool         `json:"via_setters,omitempty"`
	// Decoded: the attester obtains its claims by decoding their CBOR encoding
	// (e.g. a template token) instead of building them
	Decoded bool `json:"decoded,omitempty"`
}

type NetCfg struct {
	Attesters []NetAttester `json:"attesters"`
}

type netWorld struct{}

func (netWorld) Name() string { return "W-NET" }

type netSlot struct {
	orig, cur []byte
	att       int
	claims    int
	faults    int
	emitOK    bool
	key       int // the key the attester held when it emitted this message
	crafted   bool
	claimsObs string // getters of the claims that were signed, rendered at emit time
}

var netAlgProfile = func() [][2]string {
	var out [][2]string
	for _, a := range allAlgs {
		for _, p := range []string{"p1", "p2"} {
			out = append(out, [2]string{a, p})
		}
	}
	// extension profiles decode through the embedding-aware helpers: three more
	// sweeps, algorithms rotating
	for i, p := range []string{"xp2", "xw", "xp1", "xc", "xk"} {
		out = append(out, [2]string{allAlgs[(i*2)%len(allAlgs)], p})
	}
	return out
}()

func wrongKeyFor(r *Rng, spec SignerSpec) int {
	if r.Chance(1, 6) {
		return -100 - spec.Key // a key related to the right one (same X / same modulus)
	}
	switch r.Intn(7) {
	case 6:
		return -2 - r.Intn(2) // a malformed Ed25519 key
	case 0:
		return -1 // nil key
	case 1:
		return r.Intn(len(keyPool)) // anything (may be right by chance)
	case 2, 3:
		// same algorithm, another key
		ks := keysForAlg(spec.Alg)
		var others []int
		for _, k := range ks {
			if k != spec.Key {
				others = append(others, k)
			}
		}
		if len(others) > 0 {
			return others[r.Intn(len(others))]
		}
		return -1
	default:
		// a key of another kind
		for tries := 0; tries < 20; tries++ {
			k := r.Intn(len(keyPool))
			if keyPool[k].Kind != keyPool[spec.Key].Kind {
				return k
			}
		}
		return -1
	}
}

func (netWorld) Gen(prop, tier string, idx int, r *Rng) *Trace {
	var cfg NetCfg
	var ops []Op
	// Exhaustive sub-space: the first 14 runs of every batch sweep every
	// single-bit flip of one token per (algorithm x profile).
	if prop == "C02" && idx < len(netAlgProfile) {
		ap := netAlgProfile[idx]
		ks := keysForAlg(ap[0])
		spec := SignerSpec{Alg: ap[0], Key: ks[r.Intn(len(ks))]}
		cfg.Attesters = []NetAttester{{Signer: spec, Claims: []ClaimsDesc{genValidClaims(r, ap[1])}}}
		ops = []Op{{K: "emit", S: "m0"}, {K: "deliver", T: "m0", B: spec.Key}, {K: "bitsweep", T: "m0", B: spec.Key}}
		cj, _ := json.Marshal(cfg)
		return &Trace{World: "W-NET", Cfg: cj, Ops: ops}
	}
	nAtt := r.Range(2, 5)
	fams := []string{"p1", "p2", "p1", "p2", "xp2", "xw", "xc", "xk"}
	for i := 0; i < nAtt; i++ {
		a := NetAttester{Signer: genSignerSpec(r, prop == "C02" && tier == "quick"), ViaSetters: r.Chance(1, 3), Decoded: r.Chance(1, 4)}
		if i > 0 && r.Chance(1, 3) {
			// a second attester on the same algorithm with another key: the hard misroute case
			a.Signer.Alg = cfg.Attesters[0].Signer.Alg
			ks := keysForAlg(a.Signer.Alg)
			a.Signer.Key = ks[r.Intn(len(ks))]
		}
		n := r.Range(1, 3)
		for j := 0; j < n; j++ {
			a.Claims = append(a.Claims, genValidClaims(r, fams[r.Intn(len(fams))]))
		}
		cfg.Attesters = append(cfg.Attesters, a)
	}
	kinds := netFaultKinds
	if r.Chance(1, 3) {
		// swarm: a subset of fault kinds
		var sub []string
		for _, k := range netFaultKinds {
			if r.Chance(1, 2) {
				sub = append(sub, k)
			}
		}
		if len(sub) > 0 {
			kinds = sub
		}
	}
	nMsg := r.Range(2, 6)
	curKey := make([]int, nAtt) // the key each attester holds right now (rekey changes it)
	for i := range curKey {
		curKey[i] = cfg.Attesters[i].Signer.Key
	}
	var labels []string
	nextLabel := 0
	newLabel := func() string {
		l := fmt.Sprintf("m%d", nextLabel)
		nextLabel++
		return l
	}
	for m := 0; m < nMsg; m++ {
		ai := r.Intn(nAtt)
		att := cfg.Attesters[ai]
		l := newLabel()
		if len(labels) > 0 && r.Chance(1, 4) {
			// the attester's reused Evidence first decodes somebody else's token
			ops = append(ops, Op{K: "absorb", A: ai, T: labels[r.Intn(len(labels))]})
		}
		ci := r.Intn(len(att.Claims))
		if r.Chance(1, 4) {
			// the attester updates a software component of its claims in place (through the component's own setters)
			ops = append(ops, Op{K: "tweak", A: ai, B: ci, C: r.Intn(4), D: r.Intn(1000)})
		}
		if prop == "C03" && r.Chance(1, 5) {
			// the attester is re-provisioned with another key of the same algorithm and goes on using its Evidence
			ks := keysForAlg(att.Signer.Alg)
			nk := ks[r.Intn(len(ks))]
			ops = append(ops, Op{K: "rekey", A: ai, B: nk})
			curKey[ai] = nk
		}
		ops = append(ops, Op{K: "emit", S: l, A: ai, B: ci, C: r.Intn(3)})
		labels = append(labels, l)
		// the fault-free arm
		gmode := r.Intn(5)
		gtouch := 0
		if r.Chance(1, 4) {
			gtouch = r.Range(1, 3)
		}
		ops = append(ops, Op{K: "deliver", T: l, B: curKey[ai], C: gmode, D: gtouch})
		if prop == "C03" {
			if r.Chance(1, 4) {
				ops = append(ops, Op{K: "deliver", T: l, B: curKey[ai], C: r.Intn(3)}) // duplicate delivery
			}
			if r.Chance(1, 4) {
				ops = append(ops, Op{K: "deliver", T: l, B: wrongKeyFor(r, SignerSpec{Alg: att.Signer.Alg, Key: curKey[ai]}), C: r.Intn(3)})
			}
			continue
		}
		nCopies := r.Range(1, 4)
		for c := 0; c < nCopies; c++ {
			cl := newLabel()
			ops = append(ops, Op{K: "copy", S: cl, T: l})
			nf := r.Range(1, 3)
			for f := 0; f < nf; f++ {
				fo := genNetFault(r, kinds, len(labels))
				fo.T = cl
				if fo.F == "net.splice" || fo.F == "net.concat" {
					fo.S = labels[r.Intn(len(labels))]
				}
				ops = append(ops, fo)
			}
			key := curKey[ai]
			if r.Chance(1, 5) {
				key = wrongKeyFor(r, SignerSpec{Alg: att.Signer.Alg, Key: curKey[ai]})
			}
			dmode := r.Intn(5)
			if gmode >= 3 && c == 0 {
				// straight after the genuine token, through the same verifier and its one receive buffer
				dmode = gmode
			}
			touch := 0
			if r.Chance(1, 3) {
				touch = r.Range(1, 3)
			}
			ops = append(ops, Op{K: "deliver", T: cl, B: key, C: dmode, D: touch})
		}
		if prop == "C02" && gmode >= 3 && r.Chance(1, 2) {
			// the genuine token once more through the same receive buffer, after its damaged copies
			ops = append(ops, Op{K: "deliver", T: l, B: curKey[ai], C: gmode})
		}
		// a Byzantine attester crafts a message with its own key and sends it to the verifier that trusts that key
		if r.Chance(1, 3) {
			cl := newLabel()
			ops = append(ops, Op{K: "craft", S: cl, A: ai, B: r.Intn(len(att.Claims)), C: r.Intn(craftVariants)})
			ops = append(ops, Op{K: "deliver", T: cl, B: curKey[ai], C: r.Intn(3)})
		}
		// the attester's own signer fails; nothing without a signature may verify afterwards
		if r.Chance(1, 4) {
			ops = append(ops, Op{K: "failsign", A: ai, B: r.Intn(len(att.Claims)), F: []string{"sig.err", "sig.nil", "sig.empty"}[r.Intn(3)], C: r.Intn(2)})
		}
		// misroute the genuine token
		if r.Chance(2, 3) {
			ops = append(ops, Op{K: "deliver", T: l, B: wrongKeyFor(r, SignerSpec{Alg: att.Signer.Alg, Key: curKey[ai]}), C: r.Intn(3)})
		}
	}
	cj, _ := json.Marshal(cfg)
	return &Trace{World: "W-NET", Cfg: cj, Ops: ops}
}

// coseParts is the fallback view of an envelope through go-cose's decoder
// (used only when the harness walker cannot split an accepted token).
func coseParts(tok []byte) (string, bool) {
	var m cose.Sign1Message
	if err := m.UnmarshalCBOR(tok); err != nil {
		return "", false
	}
	prot, ok := bstrContent(m.Headers.RawProtected, 0)
	if !ok {
		return "", false
	}
	return string(prot) + "|" + string(m.Payload) + "|" + string(m.Signature), true
}

func tripleOf(tok []byte) (sign1Parts, string, bool) {
	p, ok := splitSign1(tok)
	if !ok || !p.ProtIsBstr || !p.SigIsBstr {
		return p, "", false
	}
	return p, p.tripleKey(), true
}

// craft variants (Byzantine attester, own key)
const (
	craftAlgOnlyUnprotectedEmptyBstr = iota // protected h'', alg in the unprotected map, signature over that structure
	craftAlgOnlyUnprotectedEmptyMap         // protected h'a0', alg in the unprotected map
	craftNilPayload                         // payload nil, signature computed over the claims as detached content
	craftNonMinimalAlg                      // protected {1: alg} with alg written non-minimally: genuinely signed as such
	craftVariants
)

// sigStructure builds Sig_structure = ["Signature1", protected, external_aad = h”, payload].
func sigStructure(prot, payload []byte) []byte {
	out := []byte{0x84, 0x6a}
	out = append(out, "Signature1"...)
	out = append(out, cborBstr(prot)...)
	out = append(out, 0x40)
	out = append(out, cborBstr(payload)...)
	return out
}

func cborInt(v int64) []byte {
	if v >= 0 {
		return encodeHead(0, uint64(v))
	}
	return encodeHead(1, uint64(-1-v))
}

// craftToken returns the crafted message and whether it legitimately counts
// as "signed by that key" (so that accepting it is fine).
func craftToken(signer cose.Signer, alg string, payload []byte, variant int) (tok []byte, genuine bool, err error) {
	algEnc := cborInt(coseAlgValue[alg])
	unprotAlg := append([]byte{0xa1, 0x01}, algEnc...)
	var prot, unprot []byte
	payloadEl := cborBstr(payload)
	switch variant % craftVariants {
	case craftAlgOnlyUnprotectedEmptyBstr:
		prot, unprot = []byte{}, unprotAlg
	case craftAlgOnlyUnprotectedEmptyMap:
		prot, unprot = []byte{0xa0}, unprotAlg
	case craftNilPayload:
		prot, unprot = append([]byte{0xa1, 0x01}, algEnc...), []byte{0xa0}
		payloadEl = []byte{0xf6}
	case craftNonMinimalAlg:
		v := coseAlgValue[alg]
		prot, unprot = append([]byte{0xa1, 0x01}, encodeHeadW(1, uint64(-1-v), 2)...), []byte{0xa0}
		genuine = true
	}
	sig, err := signer.Sign(nil, sigStructure(prot, payload))
	if err != nil {
		return nil, false, err
	}
	tok = []byte{0xd2, 0x84}
	tok = append(tok, cborBstr(prot)...)
	tok = append(tok, unprot...)
	tok = append(tok, payloadEl...)
	tok = append(tok, cborBstr(sig)...)
	return tok, genuine, nil
}

var coseAlgValue = map[string]int64{"ES256": -7, "ES384": -35, "ES512": -36, "EdDSA": -8, "PS256": -37, "PS384": -38, "PS512": -39}

func (netWorld) Exec(prop string, t *Trace) *Result {
	res := newResult()
	var cfg NetCfg
	if err := json.Unmarshal(t.Cfg, &cfg); err != nil {
		res.Fatal = "bad cfg: " + err.Error()
		return res
	}
	registerSimProfiles()
	disarmCodec()
	c02 := prop == "C02"
	c03 := prop == "C03"
	type attState struct {
		live []psatoken.IClaims
		ev   *psatoken.Evidence
		hs   cose.Signer
		spec SignerSpec // the key it holds right now
		// the key of the token its Evidence last decoded (-9: none)
		absorbedKey int
	}
	// by-value copies of Evidences that decoded somebody's token (handed to an auditor, say):
	// whatever the original goes on to do, a copy verifies under the token's key at most
	type heldCopy struct {
		ev       psatoken.Evidence
		key      int
		accepted bool
		at       int
	}
	var heldCopies []*heldCopy
	checkCopies := func(step int, otherKey int) {
		if !c02 {
			return
		}
		for _, hc := range heldCopies {
			for _, k := range []int{hc.key, otherKey} {
				if k == hc.key && hc.accepted {
					continue
				}
				k := k
				res.Evals++
				if safely(func() string { return okOrErr(hc.ev.Verify(pubKey(k))) }) == "ok" {
					res.violate("C02", "accepts-under-wrong-key", "held-copy", step, "a by-value copy (taken at step %d) of an Evidence that had decoded a token for key %d (accepted then: %v) now verifies under key %d", hc.at, hc.key, hc.accepted, k)
				}
			}
		}
		res.Probes["held_copies_reverified"] += len(heldCopies)
	}
	atts := make([]*attState, len(cfg.Attesters))
	for i := range cfg.Attesters {
		a := &cfg.Attesters[i]
		st := &attState{ev: &psatoken.Evidence{}, absorbedKey: -9}
		for j := range a.Claims {
			var c psatoken.IClaims
			var err error
			if a.ViaSetters {
				c, err = a.Claims[j].buildViaSetters()
			} else {
				c, err = a.Claims[j].build()
			}
			if err != nil {
				c = nil
			}
			if c != nil && a.Decoded {
				func() {
					defer func() { _ = recover() }()
					if b, eerr := psatoken.EncodeClaimsToCBOR(c); eerr == nil {
						if d, derr := psatoken.DecodeClaimsFromCBOR(b); derr == nil {
							c = d
						}
					}
				}()
			}
			st.live = append(st.live, c)
		}
		hs, err := healthySigner(a.Signer)
		if err != nil {
			res.Fatal = "signer: " + err.Error()
			return res
		}
		st.hs = hs
		st.spec = a.Signer
		atts[i] = st
	}
	led := ledger{}
	slots := map[string]*netSlot{}
	verifierEv := &psatoken.Evidence{} // a verifier that reuses one Evidence
	var rxbuf []byte                   // a verifier that reuses one receive buffer
	type heldEvidence struct {
		ev  *psatoken.Evidence
		key int
		at  int
	}
	var heldEv []heldEvidence
	decodedStill := 0
	roundTrips := 0
	shape := ""

	type rxHeldEv struct {
		ev       *psatoken.Evidence
		key      int
		accepted bool
		at       int
	}
	var rxHeld []*rxHeldEv
	deliver := func(i int, cur []byte, key int, mode int, touch int, s *netSlot, sweep bool) {
		res.Evals++
		buf := append([]byte{}, cur...)
		if mode%5 >= 3 {
			// this verifier owns ONE receive buffer and copies every incoming message into it
			if cap(rxbuf) < len(cur) {
				rxbuf = make([]byte, 0, 2*len(cur)+64)
			}
			rxbuf = rxbuf[:len(cur)]
			copy(rxbuf, cur)
			buf = rxbuf
			res.Probes["delivered_through_reused_receive_buffer"]++
		}
		var ev *psatoken.Evidence
		var derr error
		func() {
			defer func() {
				if r := recover(); r != nil {
					derr = fmt.Errorf("panic: %v", r)
					res.Probes["verifier_panic_counted_as_reject"]++
				}
			}()
			switch mode % 5 {
			case 0, 3:
				ev, derr = psatoken.DecodeEvidenceFromCOSE(buf)
			case 1:
				derr = verifierEv.UnmarshalCOSE(buf)
				ev = verifierEv
			default:
				ev, derr = psatoken.DecodeAndValidateEvidenceFromCOSE(buf)
			}
		}()
		var verr error
		if derr == nil {
			func() {
				defer func() {
					if r := recover(); r != nil {
						verr = fmt.Errorf("panic: %v", r)
					}
				}()
				// what a verifier may do with a decoded Evidence before it asks for the verdict
				switch touch {
				case 1:
					if ev.Claims != nil {
						_ = ev.SetClaims(ev.Claims)
						res.Probes["verifier_reattached_claims_before_verify"]++
					}
				case 2:
					if ev.Claims != nil {
						_ = ev.Claims.Validate()
						_, _ = psatoken.EncodeClaimsToCBOR(ev.Claims)
						_ = getterObs(ev.Claims)
						res.Probes["verifier_read_claims_before_verify"]++
					}
				case 3:
					_ = ev.Verify(pubKey(wrongKeyDet(key)))
					res.Probes["verifier_tried_another_key_first"]++
				}
				verr = ev.Verify(pubKey(key))
			}()
		}
		accepted := derr == nil && verr == nil
		damaged := !bytes.Equal(cur, s.orig)
		if c02 && !sweep && mode%5 >= 3 {
			// Evidences decoded earlier from this verifier's ONE receive buffer: the buffer now holds
			// another message; what each of them answered then, it answers now
			for _, h := range rxHeld {
				h := h
				res.Evals++
				now := safely(func() string { return okOrErr(h.ev.Verify(pubKey(h.key))) }) == "ok"
				if now && !h.accepted {
					res.violate("C02", "accepts-modified-token", "held-evidence", i, "an Evidence decoded (step %d) from a token it then REJECTED under key %d accepts it now, after the verifier's receive buffer was reused for another message", h.at, h.key)
					h.accepted = true
				}
			}
			res.Probes["held_rx_evidences_reverified"] += len(rxHeld)
			if derr == nil && ev != nil && mode%5 != 1 && len(rxHeld) < 6 {
				rxHeld = append(rxHeld, &rxHeldEv{ev: ev, key: key, accepted: verr == nil, at: i})
			}
		}
		if !sweep {
			res.logf("%d deliver key=%d mode=%d damaged=%v derr=%s verr=%s", i, key, mode%5, damaged, okOrErr(derr), okOrErr(verr))
		}
		if derr == nil && damaged {
			decodedStill++
			res.Probes["damaged_still_decoded"]++
		}
		if accepted {
			p, triple, ok := tripleOf(cur)
			genuine := false
			if ok {
				genuine = led.has(key, triple)
			} else if ct, ok2 := coseParts(cur); ok2 {
				res.Probes["accepted_fallback_parse"]++
				for tr := range led[key] {
					q := bytes.SplitN([]byte(tr), []byte("\x00|\x00"), 3)
					if len(q) == 3 && ct == string(q[0])+"|"+string(q[1])+"|"+string(q[2]) {
						genuine = true
					}
				}
			}
			if c02 {
				if !genuine {
					oracle := "accepts-modified-token"
					if !damaged {
						oracle = "accepts-under-wrong-key"
					}
					res.violate("C02", oracle, "", i, "verifier holding key %d accepted a token whose (protected,payload,signature) that key never produced (damaged=%v, faults=%d): %x", key, damaged, s.faults, cur)
				}
				if ok {
					if !protectedHasAlg(p.Prot) {
						res.violate("C02", "accepts-without-protected-alg", "", i, "accepted a message with no algorithm in the protected header: %x", cur)
					}
					if !p.PayloadIsBstr {
						res.violate("C02", "accepts-without-payload", "", i, "accepted a message with no payload: %x", cur)
					}
					if len(p.Sig) == 0 {
						res.violate("C02", "accepts-without-signature", "", i, "accepted a message with an empty signature: %x", cur)
					}
				}
				if damaged && genuine {
					res.Probes["accepted_framing_only_damage"]++
				}
			}
			if genuine {
				res.Probes["accepted_genuine"]++
			}
			if c03 && genuine && !damaged && ok && ev.Claims != nil && !s.crafted && s.claimsObs != "" {
				if got := getterObs(ev.Claims); got != s.claimsObs {
					res.violate("C03", "decoded-claims-differ-from-signed-claims", "", i, "the verifier's decoded Evidence exposes claims that differ from the ones the attester signed:\n signed:  %s\n exposed: %s", s.claimsObs, got)
				}
			}
			if c03 && genuine && !damaged && ok && ev.Claims != nil {
				// the claims exposed by a decoded Evidence are the decoding of the covered payload
				dec, e := psatoken.DecodeClaimsFromCBOR(append([]byte{}, p.Payload...))
				if e != nil {
					res.violate("C03", "decoded-claims-not-from-payload", "", i, "accepted token's payload does not decode on its own: %v", e)
				} else if a, b := getterObs(dec), getterObs(ev.Claims); a != b {
					res.violate("C03", "decoded-claims-not-from-payload", "", i, "decoded Evidence exposes claims that are not the decoding of the signed payload:\n payload: %s\n exposed: %s", a, b)
				}
				// the verifier goes on to use (and annotate) its own copy of the claims
				func() {
					defer func() { _ = recover() }()
					_ = ev.Claims.SetVSI("seen-by-verifier")
					_ = ev.Claims.SetClientID(-7)
				}()
			}
		} else {
			if c03 && !damaged && s.emitOK && key == s.key {
				res.violate("C03", "genuine-token-rejected", "", i, "un-damaged token rejected by the verifier holding the signer's key (decode: %v, verify: %v)", derr, verr)
			}
			if !damaged && key != s.key {
				res.Probes["misroute_rejected"]++
			}
		}
	}

	for i, op := range t.Ops {
		res.OpsRun++
		res.Steps++
		switch op.K {
		case "emit":
			if op.A < 0 || op.A >= len(atts) {
				break
			}
			st := atts[op.A]
			spec := atts[op.A].spec
			if op.B < 0 || op.B >= len(st.live) || st.live[op.B] == nil {
				res.Probes["emit_unbuildable"]++
				break
			}
			c := st.live[op.B]
			if v := c.Validate(); v != nil {
				// generator and library disagree on validity: not this property's business
				res.Probes["emit_claims_not_valid"]++
				break
			}
			var tok []byte
			var err error
			e := st.ev
			switch op.C % 3 {
			case 0:
				if err = e.SetClaims(c); err == nil {
					tok, err = e.ValidateAndSign(st.hs)
				}
			case 1:
				e.Claims = c
				tok, err = e.Sign(st.hs)
			default:
				e = &psatoken.Evidence{}
				if err = e.SetClaims(c); err == nil {
					tok, err = e.ValidateAndSign(st.hs)
				}
			}
			res.logf("%d emit att=%d claims=%d mode=%d err=%s tok=%x", i, op.A, op.B, op.C%3, okOrErr(err), tok)
			s := &netSlot{att: op.A, claims: op.B, claimsObs: getterObs(c), key: spec.Key}
			if op.S != "" {
				slots[op.S] = s
			}
			res.Evals++
			if err != nil {
				if c03 {
					res.violate("C03", "sign-fails-on-valid-claims", "", i, "signing valid claims with a healthy %s signer failed: %v", spec.Alg, err)
				}
				break
			}
			s.orig = append([]byte{}, tok...)
			s.cur = append([]byte{}, tok...)
			s.emitOK = true
			p, triple, ok := tripleOf(tok)
			if ok {
				led.add(spec.Key, triple)
			}
			shape += cfg.Attesters[op.A].Claims[op.B].claimsShape() + spec.Alg + fmt.Sprint(spec.Key, op.C%3) + ";"
			if c02 && e == st.ev && st.absorbedKey != -9 && st.absorbedKey != spec.Key {
				// the Evidence that had decoded (and verified) somebody else's token now holds this attester's envelope
				ak := st.absorbedKey
				res.Evals++
				if safely(func() string { return okOrErr(e.Verify(pubKey(ak))) }) == "ok" {
					res.violate("C02", "accepts-under-wrong-key", "signing-evidence", i, "after signing with key %d, the Evidence still verifies under key %d, whose token it had decoded before", spec.Key, ak)
				}
				res.Probes["signing_evidence_checked_under_absorbed_key"]++
			}
			checkCopies(i, spec.Key)
			if !c03 {
				break
			}
			if !ok || !p.PayloadIsBstr {
				res.violate("C03", "output-not-tagged-sign1", "", i, "ValidateAndSign output is not tag-18 [bstr, map, bstr, bstr]: %x", tok)
				break
			}
			want, werr := psatoken.ValidateAndEncodeClaimsToCBOR(c)
			if werr != nil || !bytes.Equal(want, p.Payload) {
				res.violate("C03", "payload-differs-from-validated-encoding", "", i, "signed payload differs from ValidateAndEncodeClaimsToCBOR of the same claims (err=%v)\n payload: %x\n encoding: %x", werr, p.Payload, want)
			}
			if av, has := protectedAlg(p.Prot); !has || av != coseAlgValue[spec.Alg] {
				res.violate("C03", "protected-alg-wrong", "", i, "protected header does not carry the signer's algorithm %s (found %d, present=%v)", spec.Alg, av, has)
			}
			if verr := e.Verify(pubKey(spec.Key)); verr != nil {
				res.violate("C03", "signing-evidence-does-not-verify", "", i, "Verify on the signing Evidence failed: %v", verr)
			} else if op.C%3 == 2 {
				// a signing Evidence of its own: it must go on verifying whatever is signed or encoded later
				heldEv = append(heldEv, heldEvidence{e, spec.Key, i})
			}
			// go-cose, called directly with empty external data, must agree
			var m cose.Sign1Message
			if uerr := m.UnmarshalCBOR(tok); uerr != nil {
				res.violate("C03", "not-interoperable", "", i, "go-cose cannot decode the emitted token: %v", uerr)
			} else if vf, nerr := cose.NewVerifier(algByName[spec.Alg], pubKey(spec.Key)); nerr == nil {
				if verr := m.Verify(nil, vf); verr != nil {
					res.violate("C03", "not-interoperable", "", i, "go-cose Verify with empty external data rejects the emitted token: %v", verr)
				}
			}
			dv, derr := psatoken.DecodeAndValidateEvidenceFromCOSE(append([]byte{}, tok...))
			if derr != nil {
				res.violate("C03", "round-trip-decode-fails", "", i, "DecodeAndValidateEvidenceFromCOSE rejects the token just produced from valid claims: %v", derr)
				break
			}
			if a, b := getterObs(c), getterObs(dv.Claims); a != b {
				res.violate("C03", "round-trip-claims-differ", "", i, "decoded claims differ from the originals:\n original: %s\n decoded:  %s", a, b)
			} else if re, rerr := psatoken.EncodeClaimsToCBOR(dv.Claims); rerr != nil || !bytes.Equal(re, p.Payload) {
				// claim for claim: the decoded set carries exactly the claims that were signed,
				// no more and no fewer, so it encodes to the very payload it came from
				res.violate("C03", "round-trip-claims-differ", "", i, "decoded claims do not re-encode to the payload they were decoded from (err=%v):\n payload:    %x\n re-encoded: %x", rerr, p.Payload, re)
			}
			if verr := dv.Verify(pubKey(spec.Key)); verr != nil {
				res.violate("C03", "round-trip-verify-fails", "", i, "Verify on the decoded Evidence failed: %v", verr)
			} else {
				roundTrips++
				res.Probes["round_trip_ok"]++
			}
		case "rekey":
			if op.A < 0 || op.A >= len(atts) {
				break
			}
			st := atts[op.A]
			ns := SignerSpec{Alg: st.spec.Alg, Key: op.B}
			ok := false
			for _, k := range keysForAlg(ns.Alg) {
				if k == ns.Key {
					ok = true
				}
			}
			if !ok {
				break
			}
			hs, err := healthySigner(ns)
			if err != nil {
				break
			}
			st.hs, st.spec = hs, ns
			res.Probes["attester_rekeyed"]++
			res.logf("%d rekey att=%d key=%d", i, op.A, op.B)
		case "tweak":
			if op.A < 0 || op.A >= len(atts) {
				break
			}
			st := atts[op.A]
			if op.B < 0 || op.B >= len(st.live) || st.live[op.B] == nil {
				break
			}
			func() {
				defer func() { _ = recover() }()
				scs, err := st.live[op.B].GetSoftwareComponents()
				if err != nil || len(scs) == 0 {
					return
				}
				sc := scs[abs(op.C)%len(scs)]
				switch abs(op.C) % 3 {
				case 0:
					_ = sc.SetVersion(fmt.Sprintf("tweaked-%d", op.D))
				case 1:
					_ = sc.SetMeasurementDesc(fmt.Sprintf("tweaked-%d", op.D))
				default:
					_ = sc.SetSignerID(NewRng(uint64(op.D)).Bytes(48))
				}
				res.Probes["component_tweaked_in_place"]++
			}()
			res.logf("%d tweak att=%d claims=%d", i, op.A, op.B)
		case "failsign":
			if op.A < 0 || op.A >= len(atts) {
				break
			}
			st := atts[op.A]
			spec := atts[op.A].spec
			if op.B < 0 || op.B >= len(st.live) || st.live[op.B] == nil {
				break
			}
			fs := &FaultySigner{inner: st.hs, kind: op.F}
			st.ev.Claims = st.live[op.B]
			var tok []byte
			var err error
			if op.C%2 == 0 {
				tok, err = st.ev.Sign(fs)
			} else {
				tok, err = st.ev.ValidateAndSign(fs)
			}
			if fs.Fired {
				res.Faults[op.F]++
			}
			res.Evals++
			res.logf("%d failsign att=%d f=%s err=%s", i, op.A, op.F, okOrErr(err))
			if c02 && fs.Fired && err != nil && len(tok) == 0 {
				for _, k := range []int{spec.Key, -1} {
					if verr := st.ev.Verify(pubKey(k)); verr == nil {
						res.violate("C02", "verifies-without-signature", "", i, "after a signing attempt whose signer failed (%s) the Evidence carries no signature, yet Verify(key %d) succeeded", op.F, k)
					}
				}
				res.Probes["verify_after_signer_failure"]++
			}
		case "absorb":
			if op.A < 0 || op.A >= len(atts) {
				break
			}
			if src := slots[op.T]; src != nil && src.cur != nil {
				err := atts[op.A].ev.UnmarshalCOSE(append([]byte{}, src.cur...))
				res.logf("%d absorb att=%d err=%s", i, op.A, okOrErr(err))
				res.Probes["attester_evidence_decoded_before_sign"]++
				if err == nil {
					// the attester checks what it received, and an auditor gets a copy of the Evidence
					acc := safely(func() string { return okOrErr(atts[op.A].ev.Verify(pubKey(src.key))) }) == "ok"
					atts[op.A].absorbedKey = src.key
					heldCopies = append(heldCopies, &heldCopy{ev: *atts[op.A].ev, key: src.key, accepted: acc, at: i})
				}
			}
		case "craft":
			if op.A < 0 || op.A >= len(atts) {
				break
			}
			st := atts[op.A]
			spec := atts[op.A].spec
			if op.B < 0 || op.B >= len(st.live) || st.live[op.B] == nil {
				break
			}
			payload, perr := psatoken.EncodeClaimsToCBOR(st.live[op.B])
			if perr != nil {
				break
			}
			tok, genuine, cerr := craftToken(st.hs, spec.Alg, payload, op.C)
			if cerr != nil {
				res.Fatal = "craft: " + cerr.Error()
				return res
			}
			s := &netSlot{att: op.A, claims: op.B, orig: tok, cur: append([]byte{}, tok...), crafted: true, key: spec.Key}
			if genuine {
				if _, triple, ok := tripleOf(tok); ok {
					led.add(spec.Key, triple)
				}
			}
			if op.S != "" {
				slots[op.S] = s
			}
			res.Faults[fmt.Sprintf("byz.craft%d", op.C%craftVariants)]++
			res.logf("%d craft att=%d variant=%d tok=%x", i, op.A, op.C%craftVariants, tok)
		case "copy":
			src := slots[op.T]
			if src == nil || op.S == "" {
				break
			}
			c := *src
			c.orig = append([]byte{}, src.orig...)
			c.cur = append([]byte{}, src.cur...)
			slots[op.S] = &c
			res.Faults["net.dup"]++
		case "fault":
			s := slots[op.T]
			if s == nil || s.cur == nil {
				break
			}
			var donor []byte
			if d := slots[op.S]; d != nil {
				donor = d.cur
			}
			nb, fired := applyNetFault(s.cur, op, donor)
			if fired {
				s.cur = nb
				s.faults++
				res.Faults[op.F]++
			}
			res.logf("%d fault %s fired=%v -> %x", i, op.F, fired, nb)
		case "deliver":
			s := slots[op.T]
			if s == nil || s.cur == nil {
				break
			}
			if op.B != s.key {
				res.Faults["net.misroute"]++
			}
			deliver(i, s.cur, op.B, op.C, op.D, s, false)
		case "bitsweep":
			s := slots[op.T]
			if s == nil || s.orig == nil {
				break
			}
			n := len(s.orig) * 8
			for bit := 0; bit < n; bit++ {
				cur := append([]byte{}, s.orig...)
				cur[bit/8] ^= 1 << uint(bit%8)
				deliver(i, cur, op.B, 0, 0, s, true)
			}
			res.Faults["net.bitflip"] += n
			res.Probes["bitsweep_tokens"]++
			res.Probes["bitsweep_flips"] += n
			res.logf("%d bitsweep %d flips", i, n)
		}
	}
	if c03 {
		for _, h := range heldEv {
			res.Evals++
			if verr := h.ev.Verify(pubKey(h.key)); verr != nil {
				res.violate("C03", "signing-evidence-stops-verifying", "", len(t.Ops)-1, "the Evidence that signed at step %d verified then, but no longer does after later signing / encoding activity: %v", h.at, verr)
				break
			}
		}
		if len(heldEv) > 1 {
			res.Probes["held_signing_evidences_reverified"]++
		}
	}
	if c02 {
		res.NonTrivial = decodedStill > 0
		res.Shape = hash64(opKinds(t.Ops), shape)
	} else {
		res.NonTrivial = roundTrips > 0
		res.Shape = hash64(shape)
	}
	return res
}

func (netWorld) Simplify(o Op) []Op {
	var out []Op
	if o.K == "deliver" && o.C != 0 {
		c := o
		c.C = 0
		out = append(out, c)
	}
	if o.K == "deliver" && o.D != 0 {
		c := o
		c.D = 0
		out = append(out, c)
	}
	if o.K == "emit" && o.C != 0 {
		c := o
		c.C = 0
		out = append(out, c)
	}
	if o.K == "fault" && len(o.X) > 1 {
		c := o
		c.X = o.X[:1]
		out = append(out, c)
	}
	return out
}

// wrongKeyDet: another pool key of the same kind as key (the next one), for a
// verifier that tries the wrong key before the right one.
func wrongKeyDet(key int) int {
	if key < 0 || key >= len(keyPool) {
		return 0
	}
	for d := 1; d < len(keyPool); d++ {
		k := (key + d) % len(keyPool)
		if keyPool[k].Kind == keyPool[key].Kind {
			return k
		}
	}
	return (key + 1) % len(keyPool)
}
