package main

import (
	"bytes"
	"encoding/json"
	"fmt"
	"os"
	"os/exec"
	"path/filepath"
	"regexp"
	"strings"
	"sync"
	"time"

	psatoken "github.com/veraison/psatoken"
	"github.com/veraison/psatoken/encoding"
	"github.com/veraison/psatoken/zzverif/simrt"
)

// W-CONC: many client tasks (real goroutines) calling the read-side API on
// private objects and, read-only, on shared claims-sets and shared decoded
// Evidence. Exactly one task makes progress at a time and the simulator names
// which one at every yield point woven into the library (seam T2); the turn
// scheduler is invisible to the race detector, so the race-instrumented
// library still sees the tasks as unordered. Serves C17.
//
// Every trace runs in its own child process (GOMAXPROCS=1, asynchronous
// preemption off, GORACE log file) and the concurrent phase comes first, so
// that first-use effects (lazy initialisation) happen under the schedule.

type ConcShared struct {
	Kind   string `json:"kind"` // built | dec-cbor | dec-json | ev-decoded
	Claims int    `json:"claims"`
	Signer int    `json:"signer,omitempty"`
}

type ConcCfg struct {
	Claims  []ClaimsDesc `json:"claims"`
	Signers []SignerSpec `json:"signers"`
	Shared  []ConcShared `json:"shared"`
	Tasks   int          `json:"tasks"`
	Mode    int          `json:"mode"` // simrt.ModeRandom | ModeReplay | ModePCT
	Seed    uint64       `json:"sched_seed,omitempty"`
	SwitchP int          `json:"switch_p,omitempty"`
	Changes []uint64     `json:"pct_changes,omitempty"`
	Sched   []simrt.Seg  `json:"sched,omitempty"`
}

type concWorld struct{}

func (concWorld) Name() string { return "W-CONC" }

var concPrivateOps = []string{"new", "dec-cbor", "decv-cbor", "dec-json", "decv-json", "dec-cose", "decv-cose", "build-enc", "sign", "sign-verify", "dec-cbor-damaged", "dec-json-damaged",
	"dec-json-dep", "decv-json-dep", "unmarshal-cose", "claims-unmarshal", "dec-iface-ext", "venc-stat"}
var concSharedOps = []string{"s.validate", "s.getters", "s.enc-cbor", "s.enc-json", "s.venc", "s.verify", "s.evjson", "s.full", "s.evids"}

func (concWorld) Gen(prop, tier string, idx int, r *Rng) *Trace {
	var cfg ConcCfg
	fams := []string{"p1", "p2", "p1", "p2", "xp2", "xp1", "xw", "xk", "xc"}
	nClaims := r.Range(2, 5)
	for i := 0; i < nClaims; i++ {
		pf := fams[i%2]
		if i >= 2 {
			pf = fams[r.Intn(len(fams))]
		}
		d := genValidClaims(r, pf)
		if r.Chance(1, 6) {
			d = genInvalidClaims(r, pf)
			if r.Chance(1, 2) && len(d.Sw) > 0 {
				// a longish component list with one or two malformed entries somewhere in it
				for n := r.Range(33, 48); len(d.Sw) < n; {
					d.Sw = append(d.Sw, genSw(r))
				}
				for k := r.Range(1, 2); k > 0; k-- {
					d.Sw[r.Intn(len(d.Sw))].MVal = hp(r.Bytes(5))
				}
			}
		} else if r.Chance(1, 10) && len(d.Sw) > 0 {
			// an unusual but legal claims-set: a few hundred software components
			for n := r.Range(257, 300); len(d.Sw) < n; {
				d.Sw = append(d.Sw, genSw(r))
			}
		}
		cfg.Claims = append(cfg.Claims, d)
	}
	nSig := r.Range(1, 3)
	for i := 0; i < nSig; i++ {
		cfg.Signers = append(cfg.Signers, genSignerSpec(r, true))
	}
	kinds := []string{"built", "dec-cbor", "dec-json", "ev-decoded", "built", "ev-decoded"}
	nShared := r.Range(1, 4)
	for i := 0; i < nShared; i++ {
		cfg.Shared = append(cfg.Shared, ConcShared{Kind: kinds[r.Intn(len(kinds))], Claims: r.Intn(nClaims), Signer: r.Intn(nSig)})
	}
	cfg.Tasks = []int{2, 3, 4, 8, 16}[r.Intn(5)]
	if tier == "thorough" {
		cfg.Tasks = []int{2, 3, 4, 8, 16, 16, 32, 64}[r.Intn(8)]
	}
	for _, d := range cfg.Claims {
		if len(d.Sw) > 100 && cfg.Tasks > 8 {
			cfg.Tasks = 8 // a few hundred components x statement-granular switching x dozens of tasks buys nothing but time
		}
	}
	cfg.Seed = r.U64()
	switch r.Intn(4) {
	case 0:
		cfg.Mode = simrt.ModeRandom
		cfg.SwitchP = 65536 // statement-granular
	case 1:
		cfg.Mode = simrt.ModeRandom
		cfg.SwitchP = 65536 / 4
	case 2:
		cfg.Mode = simrt.ModeRandom
		cfg.SwitchP = 65536 / 32
	default:
		cfg.Mode = simrt.ModePCT
		d := r.Range(1, 3)
		for i := 0; i < d; i++ {
			cfg.Changes = append(cfg.Changes, uint64(r.Intn(4000)))
		}
		sortU64(cfg.Changes)
	}
	var ops []Op
	// swarm: this run's op mix
	sharedBias := r.Range(1, 4)
	focus := ""
	if r.Chance(1, 2) {
		// many tasks doing the same kind of thing at once
		if r.Chance(1, 2) {
			focus = concPrivateOps[r.Intn(len(concPrivateOps))]
		} else {
			focus = concSharedOps[r.Intn(len(concSharedOps))]
		}
	}
	// cold start, one run in six: the very first thing every task does is to build and encode a
	// claims-set of the same extension family (first uses of per-type state overlap)
	cold := -1
	if r.Chance(1, 6) {
		for k, d := range cfg.Claims {
			if d.Prof == "xp2" || d.Prof == "xw" || d.Prof == "xk" || d.Prof == "xp1" {
				cold = k
			}
		}
		if cold < 0 {
			cfg.Claims = append(cfg.Claims, genValidClaims(r, []string{"xp2", "xk", "xw"}[r.Intn(3)]))
			cold = len(cfg.Claims) - 1
			nClaims = len(cfg.Claims)
		}
		if len(cfg.Claims[cold].Sw) > 100 {
			cold = -1
		}
	}
	for t := 0; t < cfg.Tasks; t++ {
		if cold >= 0 {
			ops = append(ops, Op{A: t, K: "build-enc", B: cold})
		}
		n := r.Range(3, 10)
		if cfg.Tasks > 16 {
			n = r.Range(2, 5)
		}
		for j := 0; j < n; j++ {
			op := Op{A: t}
			switch {
			case focus != "" && r.Chance(1, 2):
				op.K = focus
			case r.Intn(5) < sharedBias:
				op.K = concSharedOps[r.Intn(len(concSharedOps))]
			default:
				op.K = concPrivateOps[r.Intn(len(concPrivateOps))]
			}
			op.B = r.Intn(nClaims)
			if strings.HasPrefix(op.K, "s.") {
				op.B = r.Intn(nShared)
			}
			op.C = r.Intn(nSig)
			op.D = r.Range(-1, len(keyPool)-1)
			if r.Chance(1, 2) {
				op.D = cfg.Signers[op.C].Key
			}
			ops = append(ops, op)
		}
	}
	cj, _ := json.Marshal(cfg)
	return &Trace{World: "W-CONC", Cfg: cj, Ops: ops}
}

func sortU64(a []uint64) {
	for i := 1; i < len(a); i++ {
		for j := i; j > 0 && a[j] < a[j-1]; j-- {
			a[j], a[j-1] = a[j-1], a[j]
		}
	}
}

// ---- environment shared (read-only) by all tasks

type concEnv struct {
	cfg    *ConcCfg
	cbor   [][]byte // per claims index: CBOR message (nil if not encodable)
	jsn    [][]byte
	cose   [][]byte
	shared []*obsLive
}

func buildConcEnv(cfg *ConcCfg) *concEnv {
	e := &concEnv{cfg: cfg}
	for i := range cfg.Claims {
		var cb, js, co []byte
		func() {
			defer func() { _ = recover() }()
			c, err := cfg.Claims[i].build()
			if err != nil {
				return
			}
			cb, _ = psatoken.EncodeClaimsToCBOR(c)
			js, _ = psatoken.EncodeClaimsToJSON(c)
			if cb != nil && len(cfg.Signers) > 0 {
				co, _ = directSign(cfg.Signers[i%len(cfg.Signers)], cb)
			}
		}()
		e.cbor = append(e.cbor, cb)
		e.jsn = append(e.jsn, js)
		e.cose = append(e.cose, co)
	}
	ocfg := &ObsCfg{Claims: cfg.Claims, Signers: cfg.Signers}
	for _, s := range cfg.Shared {
		o := ObsObj{Kind: s.Kind, Claims: s.Claims, Signer: s.Signer}
		e.shared = append(e.shared, o.materialise(ocfg))
	}
	return e
}

func digestClaims(c psatoken.IClaims, err error) string {
	if err != nil {
		return "err"
	}
	return hash8(fullObs(c))
}

// do performs one operation and renders its result.
func (e *concEnv) do(op Op) string {
	cfg := e.cfg
	ci := op.B
	if ci < 0 || ci >= len(cfg.Claims) {
		ci = 0
	}
	cp := func(b []byte) []byte { return append([]byte{}, b...) }
	switch op.K {
	case "new":
		c, err := psatoken.NewClaims(profileNameOf(cfg.Claims[ci].Prof))
		return digestClaims(c, err)
	case "dec-cbor":
		return digestClaims(psatoken.DecodeClaimsFromCBOR(cp(e.cbor[ci])))
	case "decv-cbor":
		return digestClaims(psatoken.DecodeAndValidateClaimsFromCBOR(cp(e.cbor[ci])))
	case "dec-json":
		return digestClaims(psatoken.DecodeClaimsFromJSON(cp(e.jsn[ci])))
	case "decv-json":
		return digestClaims(psatoken.DecodeAndValidateClaimsFromJSON(cp(e.jsn[ci])))
	case "venc-stat":
		// a private object of a user type whose Validate() writes to the object itself
		d := cfg.Claims[ci]
		if d.Prof == "p1" || d.Prof == "xp1" {
			return "n/a"
		}
		b, err := buildP2(&d, psatoken.Profile2Name)
		if err != nil {
			return "unbuildable"
		}
		b.Profile = eatProfileOf(psatoken.Profile2Name)
		x := &XStatClaims{P2Claims: *b}
		j, e1 := psatoken.ValidateAndEncodeClaimsToJSON(x)
		c, e2 := psatoken.ValidateAndEncodeClaimsToCBOR(x)
		return hash8(string(j)+string(c)) + okOrErr(e1) + okOrErr(e2) + fmt.Sprint(x.nValidate)
	case "dec-iface-ext":
		// an extension that embeds the IClaims INTERFACE holding a NewClaims result and decodes
		// through the embedding-aware helpers (a shape they support)
		inner, err := psatoken.NewClaims(profileNameOf(cfg.Claims[ci].Prof))
		if err != nil {
			return "err"
		}
		x := &XIfaceClaims{IClaims: inner}
		if op.D%2 == 0 {
			err = encoding.PopulateStructFromCBOR(xdm, cp(e.cbor[ci]), x)
		} else {
			err = encoding.PopulateStructFromJSON(cp(e.jsn[ci]), x)
		}
		return digestClaims(x.IClaims, err)
	case "dec-json-dep":
		return digestClaims(psatoken.DecodeUnvalidatedJSONClaims(cp(e.jsn[ci]))) //nolint:staticcheck
	case "decv-json-dep":
		return digestClaims(psatoken.DecodeJSONClaims(cp(e.jsn[ci]))) //nolint:staticcheck
	case "unmarshal-cose":
		ev := &psatoken.Evidence{}
		if err := ev.UnmarshalCOSE(cp(e.cose[ci])); err != nil {
			return "err"
		}
		return hash8(fullObs(ev.Claims)) + okOrErr(ev.Verify(pubKey(op.D)))
	case "claims-unmarshal":
		c, err := psatoken.NewClaims(profileNameOf(cfg.Claims[ci].Prof))
		if err != nil {
			return "err"
		}
		u, ok := c.(unmarshalBoth)
		if !ok {
			return "n/a"
		}
		if op.D%2 == 0 {
			return digestClaims(c, u.UnmarshalCBOR(cp(e.cbor[ci])))
		}
		return digestClaims(c, u.UnmarshalJSON(cp(e.jsn[ci])))
	case "dec-cbor-damaged":
		// a structurally damaged message (missing member, wrong type, ...): decoding fails part-way
		b, _ := applyTreeFault(cp(e.cbor[ci]), op.C*7+op.D, op.D+len(treeSubst)+1)
		if op.D%2 == 0 {
			b, _ = applyTreeFault(cp(e.cbor[ci]), op.C*7+op.D, op.D)
		}
		return digestClaims(psatoken.DecodeClaimsFromCBOR(b))
	case "dec-json-damaged":
		b, _ := applyJSONFault(cp(e.jsn[ci]), op.C*7+op.D, op.D+len(jsonSubst)+2)
		if op.D%2 == 0 {
			b, _ = applyJSONFault(cp(e.jsn[ci]), op.C*7+op.D, op.D)
		}
		return digestClaims(psatoken.DecodeClaimsFromJSON(b))
	case "dec-cose", "decv-cose":
		var ev *psatoken.Evidence
		var err error
		if op.K == "dec-cose" {
			ev, err = psatoken.DecodeEvidenceFromCOSE(cp(e.cose[ci]))
		} else {
			ev, err = psatoken.DecodeAndValidateEvidenceFromCOSE(cp(e.cose[ci]))
		}
		if err != nil {
			return "err"
		}
		return hash8(fullObs(ev.Claims)) + okOrErr(ev.Verify(pubKey(op.D)))
	case "build-enc":
		c, err := cfg.Claims[ci].build()
		return digestClaims(c, err)
	case "sign", "sign-verify":
		c, err := cfg.Claims[ci].build()
		if err != nil || len(cfg.Signers) == 0 {
			return "unbuildable"
		}
		spec := cfg.Signers[abs(op.C)%len(cfg.Signers)]
		hs, err := healthySigner(spec)
		if err != nil {
			return "nosigner"
		}
		ev := &psatoken.Evidence{}
		if err := ev.SetClaims(c); err != nil {
			ev.Claims = c
		}
		tok, err := ev.Sign(hs)
		if err != nil {
			return "signerr"
		}
		out := hash8(string(tok))
		if op.K == "sign-verify" {
			out += okOrErr(ev.Verify(pubKey(spec.Key))) + okOrErr(ev.Verify(pubKey(op.D)))
		}
		return out
	}
	// shared, read-only
	si := op.B
	if si < 0 || si >= len(e.shared) || e.shared[si] == nil {
		return "n/a"
	}
	l := e.shared[si]
	switch op.K {
	case "s.validate":
		return readCall(l, "validate", 0)
	case "s.getters":
		return hash8(getterObs(l.claims))
	case "s.enc-cbor":
		return hash8(readCall(l, "enc.cbor", 0))
	case "s.enc-json":
		return hash8(readCall(l, "enc.json", 0))
	case "s.venc":
		return hash8(readCall(l, "venc.cbor", 0) + readCall(l, "venc.json", 0))
	case "s.verify":
		return readCall(l, "verify", op.D)
	case "s.evjson":
		return hash8(readCall(l, "ev.json", 0))
	case "s.full":
		return hash8(fullObs(l.claims))
	case "s.evids":
		return readCall(l, "ev.instid", 0) + "/" + readCall(l, "ev.implid", 0)
	}
	return "?"
}

func sharedIndex(op Op) int {
	if strings.HasPrefix(op.K, "s.") {
		return op.B
	}
	return -1
}

// concOut is what the child reports beyond the generic result.
type concOut struct {
	Sched     []simrt.Seg `json:"sched"`
	Switches  int         `json:"switches"`
	Overlaps  int         `json:"overlaps"`
	SameObj   int         `json:"same_obj"`
	Diverged  bool        `json:"diverged"`
	Steps     uint64      `json:"steps"`
	Mismatch  []string    `json:"mismatch"`
	SharedMov []string    `json:"shared_moved"`
}

func (concWorld) Exec(prop string, t *Trace) *Result {
	res := newResult()
	var cfg ConcCfg
	if err := json.Unmarshal(t.Cfg, &cfg); err != nil {
		res.Fatal = "bad cfg: " + err.Error()
		return res
	}
	if cfg.Tasks < 1 || cfg.Tasks > simrt.MaxTasks {
		res.Fatal = "bad task count"
		return res
	}
	registerSimProfiles()
	disarmCodec()
	perTask := make([][]Op, cfg.Tasks)
	for _, op := range t.Ops {
		if op.A >= 0 && op.A < cfg.Tasks {
			perTask[op.A] = append(perTask[op.A], op)
		}
	}
	run := func(concurrent bool) (out [][]string, sharedBefore, sharedAfter []string, co concOut) {
		env := buildConcEnv(&cfg)
		out = make([][]string, cfg.Tasks)
		for i := range out {
			out[i] = make([]string, len(perTask[i]))
		}
		obsAll := func() []string {
			var o []string
			for _, s := range env.shared {
				if s == nil {
					o = append(o, "-")
					continue
				}
				p := observe(s.claims, s.ev, obsOrders[0], false)
				o = append(o, p["getters"]+"|"+p["validate"]+"|"+p["cbor"]+"|"+p["json"]+"|"+p["verify"])
			}
			return o
		}
		if !concurrent {
			for id := 0; id < cfg.Tasks; id++ {
				for j, op := range perTask[id] {
					op := op
					out[id][j] = safely(func() string { return env.do(op) })
				}
			}
			return out, nil, nil, co
		}
		// NOTE: no observation of the shared objects before the concurrent phase:
		// their first use must happen under the schedule.
		steps0 := simrt.Steps
		var wg sync.WaitGroup
		simrt.Begin(simrt.Config{Tasks: cfg.Tasks, Mode: cfg.Mode, Seed: cfg.Seed, SwitchP: cfg.SwitchP, Sched: cfg.Sched, Changes: cfg.Changes})
		for id := 0; id < cfg.Tasks; id++ {
			wg.Add(1)
			go func(id int) {
				defer wg.Done()
				simrt.Enter(id)
				for j, op := range perTask[id] {
					op := op
					simrt.MarkCall(id, true, sharedIndex(op))
					r := safely(func() string { return env.do(op) })
					simrt.MarkCall(id, false, -1)
					out[id][j] = r
				}
				simrt.Exit(id)
			}(id)
		}
		wg.Wait()
		co.Sched = simrt.End()
		co.Switches, co.Overlaps, co.SameObj, co.Diverged = simrt.Switches, simrt.Overlaps, simrt.SameObj, simrt.Diverged
		co.Steps = simrt.Steps - steps0
		sharedAfter = obsAll()
		// what the same shared objects look like when nobody raced on them
		fresh := buildConcEnv(&cfg)
		for _, s := range fresh.shared {
			if s == nil {
				sharedBefore = append(sharedBefore, "-")
				continue
			}
			p := observe(s.claims, s.ev, obsOrders[0], false)
			sharedBefore = append(sharedBefore, p["getters"]+"|"+p["validate"]+"|"+p["cbor"]+"|"+p["json"]+"|"+p["verify"])
		}
		return out, sharedBefore, sharedAfter, co
	}
	conc, sb, sa, co := run(true)
	seq, _, _, _ := run(false)
	res.Steps = co.Steps
	res.OpsRun = len(t.Ops)
	for id := range conc {
		for j := range conc[id] {
			res.Evals++
			if conc[id][j] != seq[id][j] {
				op := perTask[id][j]
				msg := fmt.Sprintf("task %d op %d (%s b=%d): concurrent result %q, sequential result %q", id, j, op.K, op.B, conc[id][j], seq[id][j])
				co.Mismatch = append(co.Mismatch, msg)
				if len(co.Mismatch) <= 3 {
					res.violate("C17", "concurrent-result-differs-from-sequential", "", -1, "%s", msg)
				}
			}
		}
	}
	for i := range sa {
		if i < len(sb) && sa[i] != sb[i] {
			msg := fmt.Sprintf("shared object %d (%s) after the concurrent phase differs from an identically built object nobody touched", i, cfg.Shared[i].Kind)
			co.SharedMov = append(co.SharedMov, msg)
			res.violate("C17", "shared-object-changed-by-readers", "", -1, "%s:\n untouched: %s\n after:     %s", msg, sb[i], sa[i])
		}
	}
	res.Probes["switches"] = co.Switches
	res.Probes["switch_into_task_mid_call"] = co.Overlaps
	res.Probes["overlap_on_same_shared_object"] = co.SameObj
	res.Probes["yields_by_goroutines_the_library_started"] = simrt.Foreign
	if co.Diverged {
		res.Probes["replay_schedule_exhausted"]++
	}
	res.Faults["sched.switch"] = co.Switches
	res.NonTrivial = co.SameObj > 0 || co.Overlaps > 0
	var sb2 strings.Builder
	for _, s := range co.Sched {
		fmt.Fprintf(&sb2, "%d:%d,", s.T, s.N)
	}
	res.Shape = hash64(sb2.String(), opKinds(t.Ops))
	res.logf("sched %016x switches=%d overlaps=%d", hash64(sb2.String()), co.Switches, co.Overlaps)
	for id := range conc {
		res.logf("task %d: %s", id, strings.Join(conc[id], " "))
	}
	cj, _ := json.Marshal(co.Sched)
	res.Extra = map[string]string{"sched": string(cj)}
	return res
}

func (concWorld) Simplify(o Op) []Op { return nil }

// Concretise turns a seeded-schedule trace into an explicit-schedule one.
func (concWorld) Concretise(t *Trace, res *Result) *Trace {
	if res.Extra == nil || res.Extra["sched"] == "" {
		return t
	}
	var cfg ConcCfg
	if err := json.Unmarshal(t.Cfg, &cfg); err != nil {
		return t
	}
	var sched []simrt.Seg
	if err := json.Unmarshal([]byte(res.Extra["sched"]), &sched); err != nil || len(sched) == 0 {
		return t
	}
	cfg.Mode = simrt.ModeReplay
	cfg.Sched = sched
	cfg.Changes = nil
	c := t.Clone()
	c.Cfg, _ = json.Marshal(cfg)
	return c
}

// ShrinkCfg proposes simpler configurations: fewer context switches (two
// neighbouring segments merged, i.e. the earlier task simply runs on).
func (concWorld) ShrinkCfg(t *Trace) []*Trace {
	var cfg ConcCfg
	if err := json.Unmarshal(t.Cfg, &cfg); err != nil || cfg.Mode != simrt.ModeReplay {
		return nil
	}
	var out []*Trace
	mk := func(s []simrt.Seg) {
		c2 := cfg
		c2.Sched = s
		c := t.Clone()
		c.Cfg, _ = json.Marshal(c2)
		out = append(out, c)
	}
	n := len(cfg.Sched)
	// halve first, then single merges
	if n > 8 {
		mk(append([]simrt.Seg{}, cfg.Sched[:n/2]...))
		mk(append([]simrt.Seg{}, cfg.Sched[n/2:]...))
	}
	step := 1
	if n > 64 {
		step = n / 64
	}
	for i := 0; i+1 < n; i += step {
		s := append([]simrt.Seg{}, cfg.Sched[:i]...)
		s = append(s, simrt.Seg{T: cfg.Sched[i].T, N: cfg.Sched[i].N + cfg.Sched[i+1].N})
		s = append(s, cfg.Sched[i+2:]...)
		mk(s)
	}
	return out
}

// ---- isolation

var raceBlock = regexp.MustCompile(`(?s)WARNING: DATA RACE.*?={18}`)

// classifyRaces splits race reports into library-level ones and ones that
// only involve simulator frames.
func classifyRaces(log string) (lib []string, harnessOnly []string) {
	for _, b := range raceBlock.FindAllString(log, -1) {
		isLib := false
		for _, line := range strings.Split(b, "\n") {
			l := strings.TrimSpace(line)
			if !strings.Contains(l, "(") || strings.HasPrefix(l, "/") {
				continue
			}
			if strings.HasPrefix(l, "main.") || strings.Contains(l, "/zzverif/") || strings.HasPrefix(l, "runtime.") ||
				strings.HasPrefix(l, "sync.") || strings.HasPrefix(l, "testing.") {
				continue
			}
			if strings.Contains(l, ".") && (strings.Contains(l, "github.com/") || strings.Contains(l, "encoding/") || strings.Contains(l, "crypto/") ||
				strings.Contains(l, "reflect.") || strings.Contains(l, "strings.") || strings.Contains(l, "bytes.") || strings.Contains(l, "regexp")) {
				isLib = true
			}
		}
		if isLib {
			lib = append(lib, b)
		} else {
			harnessOnly = append(harnessOnly, b)
		}
	}
	return
}

func raceSig(block string) string {
	// the first psatoken frame of the report identifies the racing site
	for _, line := range strings.Split(block, "\n") {
		l := strings.TrimSpace(line)
		if strings.HasPrefix(l, "github.com/veraison/psatoken") && !strings.Contains(l, "/zzverif/") {
			if i := strings.Index(l, "("); i > 0 {
				return l[:i]
			}
		}
	}
	return "race outside psatoken frames"
}

func runConcIsolated(prop string, tr *Trace) *Result {
	tj, _ := json.Marshal(tr)
	exe, _ := os.Executable()
	dir, err := os.MkdirTemp(filepath.Dir(exe), "race-")
	if err != nil {
		r := newResult()
		r.Fatal = "cannot create race log dir: " + err.Error()
		return r
	}
	defer os.RemoveAll(dir)
	cmd := exec.Command(os.Args[0], "-exec1", "-", "-prop", prop)
	// one P by default; the determinism self-test also runs the children on
	// several Ps (the turn protocol lets exactly one task progress either way)
	procs := os.Getenv("VERIF_CONC_GOMAXPROCS")
	if procs == "" {
		procs = "1"
	}
	hbPath := filepath.Join(dir, "heartbeat")
	cmd.Env = append(os.Environ(), "GOMAXPROCS="+procs, "GODEBUG=asyncpreemptoff=1", "GORACE=log_path="+filepath.Join(dir, "race")+" halt_on_error=0", "VERIF_HEARTBEAT="+hbPath)
	cmd.Stdin = bytes.NewReader(tj)
	var so, se bytes.Buffer
	cmd.Stdout, cmd.Stderr = &so, &se
	if err := startWithRetry(cmd); err != nil {
		r := newResult()
		r.Fatal = "cannot start child: " + err.Error()
		return r
	}
	done := make(chan error, 1)
	go func() { done <- cmd.Wait() }()
	// liveness is judged by progress (the child's step counter, written every two
	// seconds), not by total wall time: a loaded machine must not turn a slow run
	// into a verdict. 150 s without a single library statement executed, or 40
	// minutes in all, is "stuck".
	started := time.Now()
	lastBeat, lastChange := "", time.Now()
	tick := time.NewTicker(5 * time.Second)
	defer tick.Stop()
wait:
	for {
		select {
		case <-done:
			break wait
		case <-tick.C:
			if b, err := os.ReadFile(hbPath); err == nil && string(b) != lastBeat {
				lastBeat, lastChange = string(b), time.Now()
			}
			if time.Since(lastChange) > 150*time.Second || time.Since(started) > 40*time.Minute {
				_ = cmd.Process.Kill()
				<-done
				r := newResult()
				r.Fatal = fmt.Sprintf("W-CONC child made no progress for %.0f s (step counter %q, %.0f s after start): a task parked while holding a lock another task needs?", time.Since(lastChange).Seconds(), lastBeat, time.Since(started).Seconds())
				return r
			}
		}
	}
	var res *Result
	if idx := strings.LastIndex(so.String(), "RESULT "); idx >= 0 {
		var w resultWire
		line := so.String()[idx+7:]
		if nl := strings.IndexByte(line, '\n'); nl >= 0 {
			line = line[:nl]
		}
		if jerr := json.Unmarshal([]byte(line), &w); jerr == nil {
			res = fromWire(&w)
		}
	}
	if res == nil {
		r := newResult()
		r.Fatal = "W-CONC child failed: " + tail(se.String(), 1200)
		return r
	}
	files, _ := filepath.Glob(filepath.Join(dir, "race*"))
	var log strings.Builder
	for _, f := range files {
		b, _ := os.ReadFile(f)
		log.Write(b)
	}
	lib, ho := classifyRaces(log.String())
	if len(ho) > 0 && len(lib) == 0 {
		res.Fatal = "race report confined to simulator frames (harness bug):\n" + tail(ho[0], 1500)
		return res
	}
	seen := map[string]bool{}
	for _, b := range lib {
		sig := raceSig(b)
		if seen[sig] {
			continue
		}
		seen[sig] = true
		res.violate("C17", "data-race", sig, -1, "the race detector reports a data race at %s under this schedule:\n%s", sig, tail(b, 2500))
	}
	res.Probes["race_reports"] += len(lib)
	return res
}

func init() {
	isolatedRunner["W-CONC"] = runConcIsolated
}
