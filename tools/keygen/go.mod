module verif/keygen

go 1.21
