package main

import (
	"math/big"
	psatoken "github.com/veraison/psatoken"
	"crypto"
	"crypto/ecdsa"
	"crypto/ed25519"
	"crypto/rsa"
	"crypto/sha256"
	"crypto/x509"
	_ "embed"
	"encoding/binary"
	"encoding/pem"
	"errors"
	"fmt"
	"io"

	cose "github.com/veraison/go-cose"
)

//go:embed keys.pem
var keysPEM []byte

type poolKey struct {
	Name string
	Priv crypto.Signer
	Kind string // p256 p384 p521 ed25519 rsa
}

var keyPool []poolKey

func loadKeys() {
	rest := keysPEM
	for {
		var b *pem.Block
		b, rest = pem.Decode(rest)
		if b == nil {
			break
		}
		k, err := x509.ParsePKCS8PrivateKey(b.Bytes)
		if err != nil {
			panic(err)
		}
		pk := poolKey{Name: b.Headers["name"]}
		switch kk := k.(type) {
		case *ecdsa.PrivateKey:
			pk.Priv = kk
			pk.Kind = map[int]string{256: "p256", 384: "p384", 521: "p521"}[kk.Curve.Params().BitSize]
		case ed25519.PrivateKey:
			pk.Priv = kk
			pk.Kind = "ed25519"
		case *rsa.PrivateKey:
			pk.Priv = kk
			pk.Kind = "rsa"
		default:
			panic("unknown key type")
		}
		keyPool = append(keyPool, pk)
	}
	if len(keyPool) != 13 {
		panic(fmt.Sprintf("key pool: expected 13 keys, found %d", len(keyPool)))
	}
}

// SignerSpec names an (algorithm, key) pair of the pool.
type SignerSpec struct {
	Alg string `json:"alg"`
	Key int    `json:"key"`
}

var algByName = map[string]cose.Algorithm{
	"ES256": cose.AlgorithmES256, "ES384": cose.AlgorithmES384, "ES512": cose.AlgorithmES512,
	"EdDSA": cose.AlgorithmEdDSA,
	"PS256": cose.AlgorithmPS256, "PS384": cose.AlgorithmPS384, "PS512": cose.AlgorithmPS512,
}

var allAlgs = []string{"ES256", "ES384", "ES512", "EdDSA", "PS256", "PS384", "PS512"}

// keysForAlg returns pool indices usable with alg.
func keysForAlg(alg string) []int {
	kind := map[string]string{"ES256": "p256", "ES384": "p384", "ES512": "p521", "EdDSA": "ed25519",
		"PS256": "rsa", "PS384": "rsa", "PS512": "rsa"}[alg]
	var out []int
	for i, k := range keyPool {
		if k.Kind == kind {
			out = append(out, i)
		}
	}
	return out
}

// pubKey returns the public key of pool entry idx; -1 is the nil key; -2 and
// -3 are malformed Ed25519 public keys (31 bytes, empty) such as a sloppy
// trust store might hold.
func pubKey(idx int) crypto.PublicKey {
	switch idx {
	case -2:
		return ed25519.PublicKey(make([]byte, 31))
	case -3:
		return ed25519.PublicKey{}
	}
	if idx <= -100 && -100-idx < len(keyPool) {
		// a RELATED key of pool key k = -100-idx: the same point with Y negated (a valid point of
		// the same curve, a different key), the same RSA modulus with another public exponent
		switch pk := keyPool[-100-idx].Priv.Public().(type) {
		case *ecdsa.PublicKey:
			ny := new(big.Int).Sub(pk.Curve.Params().P, pk.Y)
			return &ecdsa.PublicKey{Curve: pk.Curve, X: new(big.Int).Set(pk.X), Y: ny}
		case *rsa.PublicKey:
			e := 3
			if pk.E == 3 {
				e = 65537
			}
			return &rsa.PublicKey{N: new(big.Int).Set(pk.N), E: e}
		case ed25519.PublicKey:
			o := append(ed25519.PublicKey{}, pk...)
			o[31] ^= 0x80 // the other sign of x
			return o
		}
		return nil
	}
	if idx < 0 || idx >= len(keyPool) {
		return nil
	}
	return keyPool[idx].Priv.Public()
}

// detKey wraps a pool key in a crypto.Signer whose signatures are a pure
// function of (key, digest): ECDSA via RFC 6979 (rand == nil, Go >= 1.24),
// RSASSA-PSS with a salt stream derived from (key name, digest), Ed25519 is
// deterministic by construction. go-cose sees a plain crypto.Signer.
type detKey struct {
	k poolKey
}

func (d detKey) Public() crypto.PublicKey { return d.k.Priv.Public() }

type detReader struct {
	seed [32]byte
	ctr  uint64
	buf  []byte
}

func (r *detReader) Read(p []byte) (int, error) {
	n := 0
	for n < len(p) {
		if len(r.buf) == 0 {
			var c [8]byte
			binary.BigEndian.PutUint64(c[:], r.ctr)
			r.ctr++
			h := sha256.Sum256(append(r.seed[:], c[:]...))
			r.buf = h[:]
		}
		m := copy(p[n:], r.buf)
		r.buf = r.buf[m:]
		n += m
	}
	return n, nil
}

func (d detKey) Sign(rnd io.Reader, digest []byte, opts crypto.SignerOpts) ([]byte, error) {
	// Draw from the randomness source the library handed over, as a real signer
	// would (so that whatever the library puts there is exercised, also
	// concurrently), but do not let it influence the signature.
	if rnd != nil {
		var scratch [32]byte
		_, _ = io.ReadFull(rnd, scratch[:])
	}
	switch k := d.k.Priv.(type) {
	case *ecdsa.PrivateKey:
		var h crypto.Hash
		switch len(digest) {
		case 32:
			h = crypto.SHA256
		case 48:
			h = crypto.SHA384
		case 64:
			h = crypto.SHA512
		default:
			return nil, errors.New("detKey: unexpected digest length")
		}
		return k.Sign(nil, digest, h)
	case ed25519.PrivateKey:
		return k.Sign(nil, digest, opts)
	case *rsa.PrivateKey:
		seed := sha256.Sum256(append([]byte(d.k.Name+"|"), digest...))
		return k.Sign(&detReader{seed: seed}, digest, opts)
	}
	return nil, errors.New("detKey: unknown key")
}

// healthySigner returns the real go-cose signer over the deterministic key.
func healthySigner(s SignerSpec) (cose.Signer, error) {
	if s.Key < 0 || s.Key >= len(keyPool) {
		return nil, errors.New("no such key")
	}
	alg, ok := algByName[s.Alg]
	if !ok {
		return nil, errors.New("no such alg")
	}
	return cose.NewSigner(alg, detKey{keyPool[s.Key]})
}

// BusySigner is a well-behaved signer that does other work with the library
// before it answers (a signing service that serves several Evidences): every
// call encodes another claims-set first.
type BusySigner struct {
	inner cose.Signer
	other psatoken.IClaims
	Calls int
}

func (b *BusySigner) work() {
	b.Calls++
	if b.other == nil {
		return
	}
	defer func() { _ = recover() }()
	// the injected codec fault of this step is aimed at the attached claims, not at this bystander
	saved := codecFault
	codecFault.kind = ""
	defer func() { codecFault = saved }()
	_, _ = psatoken.EncodeClaimsToCBOR(b.other)
	_, _ = psatoken.ValidateAndEncodeClaimsToCBOR(b.other)
	_, _ = psatoken.EncodeClaimsToJSON(b.other)
}

func (b *BusySigner) Algorithm() cose.Algorithm {
	b.work()
	return b.inner.Algorithm()
}

func (b *BusySigner) Sign(rand io.Reader, content []byte) ([]byte, error) {
	b.work()
	return b.inner.Sign(rand, content)
}

// FaultySigner wraps a real go-cose signer and misbehaves on demand (seam S6).
type FaultySigner struct {
	inner cose.Signer
	kind  string
	calls int // Algorithm() calls
	Fired bool
}

func (f *FaultySigner) Algorithm() cose.Algorithm {
	f.calls++
	switch f.kind {
	case "sig.badalg":
		f.Fired = true
		return cose.Algorithm(-99999)
	case "sig.flipalg":
		if f.calls >= 2 {
			f.Fired = true
			if f.inner.Algorithm() == cose.AlgorithmES256 {
				return cose.AlgorithmES384
			}
			return cose.AlgorithmES256
		}
	}
	return f.inner.Algorithm()
}

func (f *FaultySigner) Sign(rand io.Reader, content []byte) ([]byte, error) {
	switch f.kind {
	case "sig.err":
		f.Fired = true
		return nil, errors.New("injected signer failure")
	case "sig.nil":
		f.Fired = true
		return nil, nil
	case "sig.empty":
		f.Fired = true
		return []byte{}, nil
	case "sig.shortsig":
		f.Fired = true
		sig, err := f.inner.Sign(rand, content)
		if err != nil || len(sig) < 2 {
			return sig, err
		}
		return sig[:len(sig)/2], nil
	case "sig.otherbytes":
		f.Fired = true
		return f.inner.Sign(rand, append([]byte("x"), content...))
	}
	return f.inner.Sign(rand, content)
}

var signerFaults = []string{"sig.err", "sig.nil", "sig.empty", "sig.badalg", "sig.flipalg", "sig.shortsig", "sig.otherbytes"}

// signerFaultYieldsToken: the library returns a token (with a bad signature).
// (sig.badalg: this go-cose version happily signs under an algorithm number it
// does not know, and then no verifier can be built for it; a library that
// refuses instead is equally fine.)
func signerFaultYieldsToken(kind string) bool {
	return kind == "sig.shortsig" || kind == "sig.otherbytes" || kind == "sig.badalg"
}

// signerMustFail: the signer failed or returned nothing, so must the operation.
func signerMustFail(kind string) bool {
	return kind == "sig.err" || kind == "sig.nil" || kind == "sig.empty"
}
