// keygen writes the committed key pool (run once; the pool is part of /verif).
package main

import (
	"crypto/ecdsa"
	"crypto/ed25519"
	"crypto/elliptic"
	"crypto/rand"
	"crypto/rsa"
	"crypto/x509"
	"encoding/pem"
	"fmt"
	"os"
)

func emit(name string, key any) {
	der, err := x509.MarshalPKCS8PrivateKey(key)
	if err != nil {
		panic(err)
	}
	pem.Encode(os.Stdout, &pem.Block{Type: "PRIVATE KEY", Headers: map[string]string{"name": name}, Bytes: der})
}

func main() {
	for i := 0; i < 3; i++ {
		k, _ := ecdsa.GenerateKey(elliptic.P256(), rand.Reader)
		emit(fmt.Sprintf("p256-%d", i), k)
	}
	for i := 0; i < 2; i++ {
		k, _ := ecdsa.GenerateKey(elliptic.P384(), rand.Reader)
		emit(fmt.Sprintf("p384-%d", i), k)
	}
	for i := 0; i < 2; i++ {
		k, _ := ecdsa.GenerateKey(elliptic.P521(), rand.Reader)
		emit(fmt.Sprintf("p521-%d", i), k)
	}
	for i := 0; i < 3; i++ {
		_, k, _ := ed25519.GenerateKey(rand.Reader)
		emit(fmt.Sprintf("ed25519-%d", i), k)
	}
	for i := 0; i < 3; i++ {
		k, _ := rsa.GenerateKey(rand.Reader, 2048)
		emit(fmt.Sprintf("rsa2048-%d", i), k)
	}
}
