package main

import (
	"errors"
)

// Independent, minimal CBOR walker: the only harness-side parser of tokens.
// It knows item boundaries and heads, nothing about PSA or COSE semantics.

type cborHead struct {
	Off   int    // offset of the initial byte
	Major byte   // 0..7
	Info  byte   // additional information 0..31
	Arg   uint64 // argument value (length / count / value)
	HLen  int    // bytes in the head (1,2,3,5,9)
	Depth int
}

var errCBOR = errors.New("cborwalk: malformed")

func readHead(b []byte, pos int) (cborHead, error) {
	if pos >= len(b) {
		return cborHead{}, errCBOR
	}
	ib := b[pos]
	h := cborHead{Off: pos, Major: ib >> 5, Info: ib & 0x1f, HLen: 1}
	switch {
	case h.Info < 24:
		h.Arg = uint64(h.Info)
	case h.Info == 24:
		if pos+2 > len(b) {
			return h, errCBOR
		}
		h.Arg = uint64(b[pos+1])
		h.HLen = 2
	case h.Info == 25:
		if pos+3 > len(b) {
			return h, errCBOR
		}
		h.Arg = uint64(b[pos+1])<<8 | uint64(b[pos+2])
		h.HLen = 3
	case h.Info == 26:
		if pos+5 > len(b) {
			return h, errCBOR
		}
		for i := 1; i <= 4; i++ {
			h.Arg = h.Arg<<8 | uint64(b[pos+i])
		}
		h.HLen = 5
	case h.Info == 27:
		if pos+9 > len(b) {
			return h, errCBOR
		}
		for i := 1; i <= 8; i++ {
			h.Arg = h.Arg<<8 | uint64(b[pos+i])
		}
		h.HLen = 9
	case h.Info == 31:
		// indefinite / break
	default:
		return h, errCBOR
	}
	return h, nil
}

// walkItem walks one data item starting at pos, appending every head it meets
// to heads (when non-nil), and returns the offset just past the item.
func walkItem(b []byte, pos, depth int, heads *[]cborHead) (int, error) {
	if depth > 64 {
		return 0, errCBOR
	}
	h, err := readHead(b, pos)
	if err != nil {
		return 0, err
	}
	h.Depth = depth
	if heads != nil {
		*heads = append(*heads, h)
	}
	p := pos + h.HLen
	indef := h.Info == 31
	switch h.Major {
	case 0, 1:
		if indef {
			return 0, errCBOR
		}
		return p, nil
	case 2, 3:
		if indef {
			for {
				if p >= len(b) {
					return 0, errCBOR
				}
				if b[p] == 0xff {
					return p + 1, nil
				}
				p, err = walkItem(b, p, depth+1, heads)
				if err != nil {
					return 0, err
				}
			}
		}
		if h.Arg > uint64(len(b)-p) {
			return 0, errCBOR
		}
		return p + int(h.Arg), nil
	case 4, 5:
		mult := uint64(1)
		if h.Major == 5 {
			mult = 2
		}
		if indef {
			for {
				if p >= len(b) {
					return 0, errCBOR
				}
				if b[p] == 0xff {
					return p + 1, nil
				}
				p, err = walkItem(b, p, depth+1, heads)
				if err != nil {
					return 0, err
				}
			}
		}
		if h.Arg > uint64(len(b)) {
			return 0, errCBOR
		}
		for i := uint64(0); i < h.Arg*mult; i++ {
			p, err = walkItem(b, p, depth+1, heads)
			if err != nil {
				return 0, err
			}
		}
		return p, nil
	case 6:
		if indef {
			return 0, errCBOR
		}
		return walkItem(b, p, depth+1, heads)
	default: // 7
		if indef {
			return 0, errCBOR // stray break
		}
		return p, nil
	}
}

// allHeads returns every head of the (single) item in b; ok=false if b is not
// exactly one well-formed item.
func allHeads(b []byte) ([]cborHead, bool) {
	var hs []cborHead
	end, err := walkItem(b, 0, 0, &hs)
	if err != nil || end != len(b) {
		return hs, false
	}
	return hs, true
}

// sign1Parts are the raw encoded elements of a tagged COSE_Sign1.
type sign1Parts struct {
	ProtOff, ProtEnd       int // encoded protected bstr (head included)
	UnprotOff, UnprotEnd   int
	PayloadOff, PayloadEnd int
	SigOff, SigEnd         int
	Prot, Payload, Sig     []byte // contents of the three byte strings (nil payload when CBOR null)
	PayloadIsBstr          bool
	SigIsBstr, ProtIsBstr  bool
}

func bstrContent(b []byte, off int) ([]byte, bool) {
	h, err := readHead(b, off)
	if err != nil || h.Major != 2 || h.Info == 31 {
		return nil, false
	}
	s := off + h.HLen
	if h.Arg > uint64(len(b)-s) {
		return nil, false
	}
	return b[s : s+int(h.Arg)], true
}

// splitSign1 locates the four elements of tag(18)[4 items]. ok=false when the
// outer framing is anything else, or there are trailing bytes.
func splitSign1(tok []byte) (sign1Parts, bool) {
	var p sign1Parts
	if len(tok) < 2 || tok[0] != 0xd2 || tok[1] != 0x84 {
		return p, false
	}
	pos := 2
	var offs [5]int
	offs[0] = pos
	for i := 0; i < 4; i++ {
		e, err := walkItem(tok, pos, 1, nil)
		if err != nil {
			return p, false
		}
		pos = e
		offs[i+1] = pos
	}
	if pos != len(tok) {
		return p, false
	}
	p.ProtOff, p.ProtEnd = offs[0], offs[1]
	p.UnprotOff, p.UnprotEnd = offs[1], offs[2]
	p.PayloadOff, p.PayloadEnd = offs[2], offs[3]
	p.SigOff, p.SigEnd = offs[3], offs[4]
	p.Prot, p.ProtIsBstr = bstrContent(tok, p.ProtOff)
	p.Payload, p.PayloadIsBstr = bstrContent(tok, p.PayloadOff)
	p.Sig, p.SigIsBstr = bstrContent(tok, p.SigOff)
	return p, true
}

// tripleKey is the ledger key of what a signature covers plus the signature.
func (p sign1Parts) tripleKey() string {
	return string(p.Prot) + "\x00|\x00" + string(p.Payload) + "\x00|\x00" + string(p.Sig)
}

// protectedHasAlg reports whether the protected bucket (a bstr-wrapped map)
// carries label 1.
func protectedHasAlg(prot []byte) bool {
	if len(prot) == 0 {
		return false
	}
	h, err := readHead(prot, 0)
	if err != nil || h.Major != 5 || h.Info == 31 {
		return false
	}
	p := h.HLen
	for i := uint64(0); i < h.Arg; i++ {
		kh, err := readHead(prot, p)
		if err != nil {
			return false
		}
		if kh.Major == 0 && kh.Arg == 1 {
			return true
		}
		p, err = walkItem(prot, p, 1, nil)
		if err != nil {
			return false
		}
		p, err = walkItem(prot, p, 1, nil)
		if err != nil {
			return false
		}
	}
	return false
}

// encodeHead writes a CBOR head.
func encodeHead(major byte, arg uint64) []byte {
	m := major << 5
	switch {
	case arg < 24:
		return []byte{m | byte(arg)}
	case arg <= 0xff:
		return []byte{m | 24, byte(arg)}
	case arg <= 0xffff:
		return []byte{m | 25, byte(arg >> 8), byte(arg)}
	case arg <= 0xffffffff:
		return []byte{m | 26, byte(arg >> 24), byte(arg >> 16), byte(arg >> 8), byte(arg)}
	default:
		return []byte{m | 27, byte(arg >> 56), byte(arg >> 48), byte(arg >> 40), byte(arg >> 32),
			byte(arg >> 24), byte(arg >> 16), byte(arg >> 8), byte(arg)}
	}
}

func cborBstr(b []byte) []byte { return append(encodeHead(2, uint64(len(b))), b...) }

// assembleSign1 builds tag(18)[prot-bstr, unprot (raw), payload-bstr, sig-bstr].
func assembleSign1(prot []byte, unprotRaw []byte, payload []byte, sig []byte) []byte {
	out := []byte{0xd2, 0x84}
	out = append(out, cborBstr(prot)...)
	if unprotRaw == nil {
		unprotRaw = []byte{0xa0}
	}
	out = append(out, unprotRaw...)
	out = append(out, cborBstr(payload)...)
	out = append(out, cborBstr(sig)...)
	return out
}

// protectedAlg returns the integer value of label 1 in the protected bucket.
func protectedAlg(prot []byte) (int64, bool) {
	if len(prot) == 0 {
		return 0, false
	}
	h, err := readHead(prot, 0)
	if err != nil || h.Major != 5 || h.Info == 31 {
		return 0, false
	}
	p := h.HLen
	for i := uint64(0); i < h.Arg; i++ {
		kh, err := readHead(prot, p)
		if err != nil {
			return 0, false
		}
		kEnd, err := walkItem(prot, p, 1, nil)
		if err != nil {
			return 0, false
		}
		if kh.Major == 0 && kh.Arg == 1 {
			vh, err := readHead(prot, kEnd)
			if err != nil {
				return 0, false
			}
			switch vh.Major {
			case 0:
				return int64(vh.Arg), true
			case 1:
				return -1 - int64(vh.Arg), true
			}
			return 0, false
		}
		p, err = walkItem(prot, kEnd, 1, nil)
		if err != nil {
			return 0, false
		}
	}
	return 0, false
}
