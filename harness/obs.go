package main

import (
	"encoding/hex"
	"errors"
	"fmt"
	"strings"

	psatoken "github.com/veraison/psatoken"
)

// Error classes, never error strings.
func ec(err error) string {
	switch {
	case err == nil:
		return "ok"
	case errors.Is(err, errInjectedCodec):
		return "E:injected"
	case errors.Is(err, psatoken.ErrMissingMandatory):
		return "E:missing-mandatory"
	case errors.Is(err, psatoken.ErrMissingOptional):
		return "E:missing-optional"
	case errors.Is(err, psatoken.ErrNotInProfile):
		return "E:not-in-profile"
	case errors.Is(err, psatoken.ErrWrongProfile):
		return "E:wrong-profile"
	case errors.Is(err, psatoken.ErrWrongSyntax):
		return "E:wrong-syntax"
	}
	return "E:other"
}

func okOrErr(err error) string {
	if err == nil {
		return "ok"
	}
	return "err"
}

type extraGetter interface{ GetExtra() (int64, error) }
type wideGetter interface{ GetWide() string }

// safely runs f, turning a panic into a marker (observation must not crash the
// simulator; panics are judged by C05's oracle, not here).
func safely(f func() string) (out string) {
	defer func() {
		if r := recover(); r != nil {
			out = fmt.Sprintf("PANIC(%v)", r)
		}
	}()
	return f()
}

func obsSw(sc psatoken.ISwComponent) string {
	if sc == nil {
		return "<nil>"
	}
	return safely(func() string {
		var sb strings.Builder
		mt, e1 := sc.GetMeasurementType()
		mv, e2 := sc.GetMeasurementValue()
		ver, e3 := sc.GetVersion()
		sid, e4 := sc.GetSignerID()
		md, e5 := sc.GetMeasurementDesc()
		fmt.Fprintf(&sb, "{mt=%q/%s mv=%x/%s ver=%q/%s sid=%x/%s md=%q/%s}", mt, ec(e1), mv, ec(e2), ver, ec(e3), sid, ec(e4), md, ec(e5))
		return sb.String()
	})
}

// getterList renders every getter's (value, error class), one entry per claim
// in the fixed order of claimNames.
var claimNames = []string{"profile", "cid", "lc", "impl", "seed", "cert", "sw", "nonce", "inst", "vsi", "extra"}

func getterList(c psatoken.IClaims) (out []string) {
	defer func() {
		if r := recover(); r != nil {
			out = append(out, fmt.Sprintf("PANIC(%v)", r))
		}
	}()
	p, e := c.GetProfile()
	out = append(out, fmt.Sprintf("profile=%q/%s", p, ec(e)))
	cid, e := c.GetClientID()
	out = append(out, fmt.Sprintf("cid=%d/%s", cid, ec(e)))
	lc, e := c.GetSecurityLifeCycle()
	out = append(out, fmt.Sprintf("lc=%d/%s", lc, ec(e)))
	b, e := c.GetImplID()
	out = append(out, fmt.Sprintf("impl=%x/%s", b, ec(e)))
	b, e = c.GetBootSeed()
	out = append(out, fmt.Sprintf("seed=%x/%s", b, ec(e)))
	s, e := c.GetCertificationReference()
	out = append(out, fmt.Sprintf("cert=%q/%s", s, ec(e)))
	scs, e := c.GetSoftwareComponents()
	var sb strings.Builder
	fmt.Fprintf(&sb, "sw=%d/%s[", len(scs), ec(e))
	for _, sc := range scs {
		sb.WriteString(obsSw(sc))
	}
	sb.WriteString("]")
	out = append(out, sb.String())
	b, e = c.GetNonce()
	out = append(out, fmt.Sprintf("nonce=%x/%s", b, ec(e)))
	b, e = c.GetInstID()
	out = append(out, fmt.Sprintf("inst=%x/%s", b, ec(e)))
	s, e = c.GetVSI()
	out = append(out, fmt.Sprintf("vsi=%q/%s", s, ec(e)))
	if x, ok := c.(extraGetter); ok {
		v, e := x.GetExtra()
		out = append(out, fmt.Sprintf("extra=%d/%s", v, ec(e)))
	}
	if x, ok := c.(wideGetter); ok {
		out = append(out, "wide="+x.GetWide())
	}
	return out
}

// getterObs renders every getter's (value, error class).
func getterObs(c psatoken.IClaims) string {
	if c == nil {
		return "<nil claims>"
	}
	return strings.Join(getterList(c), ";") + ";"
}

// fullObs = getters + validation class + both encodings (bytes or error class).
func fullObs(c psatoken.IClaims) string {
	if c == nil {
		return "<nil claims>"
	}
	g := getterObs(c)
	v := safely(func() string { return ec(c.Validate()) })
	cb := safely(func() string {
		b, err := psatoken.EncodeClaimsToCBOR(c)
		if err != nil {
			return okOrErr(err)
		}
		return hex.EncodeToString(b)
	})
	js := safely(func() string {
		b, err := psatoken.EncodeClaimsToJSON(c)
		if err != nil {
			return okOrErr(err)
		}
		return string(b)
	})
	return g + "|validate=" + v + "|cbor=" + cb + "|json=" + js + fmt.Sprintf("|type=%T", c)
}

// obsEvidence: claims observation plus the verdict of Verify under every key
// of the pool (and nil).
func obsEvidence(e *psatoken.Evidence) string {
	var sb strings.Builder
	sb.WriteString(fullObs(e.Claims))
	sb.WriteString("|verify=")
	for i := -1; i < len(keyPool); i++ {
		i := i
		sb.WriteString(safely(func() string {
			if e.Verify(pubKey(i)) == nil {
				return "1"
			}
			return "0"
		}))
	}
	return sb.String()
}
