// simbuild copies the working tree of veraison/psatoken to a scratch directory
// and weaves the simulator seams into the copy:
//
//	T1  every `range` over a map (found with go/types) iterates over
//	    simrt.MapKeys(site, m) instead, so the simulator owns iteration order;
//	T2  (-yield) simrt.Yield(site) before every statement of the library;
//	T3  files from -hooks are dropped into the root package (build tag verif);
//	    plus the simrt and harness sources under zzverif/.
//
// /repo itself is never touched. Exit status: 0 ok, 2 on any trouble.
package main

import (
	"bytes"
	"encoding/json"
	"flag"
	"fmt"
	"go/ast"
	"go/format"
	"go/token"
	"go/types"
	"io"
	"io/fs"
	"os"
	"path/filepath"
	"sort"
	"strings"

	"golang.org/x/tools/go/ast/astutil"
	"golang.org/x/tools/go/packages"
)

const simrtPath = "github.com/veraison/psatoken/zzverif/simrt"

type site struct {
	ID   int    `json:"id"`
	Kind string `json:"kind"`
	Pos  string `json:"pos"`
	Fn   string `json:"fn,omitempty"`
}

var (
	sites  []site
	nextID = 1
)

func die(format string, a ...any) {
	fmt.Fprintf(os.Stderr, "simbuild: "+format+"\n", a...)
	os.Exit(2)
}

func main() {
	src := flag.String("src", "/repo", "source tree")
	dst := flag.String("dst", "", "scratch destination (must not exist or be empty)")
	yield := flag.Bool("yield", false, "insert T2 yield points")
	simrtDir := flag.String("simrt", "", "simrt sources")
	harnessDir := flag.String("harness", "", "harness sources")
	hooksDir := flag.String("hooks", "", "hook files for the root package")
	flag.Parse()
	if *dst == "" {
		die("-dst required")
	}
	if err := copyTree(*src, *dst); err != nil {
		die("copy: %v", err)
	}
	if *simrtDir != "" {
		if err := copyTree(*simrtDir, filepath.Join(*dst, "zzverif", "simrt")); err != nil {
			die("copy simrt: %v", err)
		}
	}
	cfg := &packages.Config{
		Mode: packages.NeedName | packages.NeedFiles | packages.NeedCompiledGoFiles |
			packages.NeedSyntax | packages.NeedTypes | packages.NeedTypesInfo | packages.NeedImports,
		Dir:   *dst,
		Tests: false,
		Env:   os.Environ(),
	}
	pkgs, err := packages.Load(cfg, "./...")
	if err != nil {
		die("load: %v", err)
	}
	sort.Slice(pkgs, func(i, j int) bool { return pkgs[i].PkgPath < pkgs[j].PkgPath })
	nMap, nYield := 0, 0
	for _, p := range pkgs {
		if strings.Contains(p.PkgPath, "/zzverif") {
			continue
		}
		if len(p.Errors) > 0 {
			die("package %s does not type-check: %v", p.PkgPath, p.Errors[0])
		}
		for i, f := range p.Syntax {
			name := p.CompiledGoFiles[i]
			if strings.HasSuffix(name, "_test.go") {
				continue
			}
			changed := false
			m := rewriteMapRanges(p.Fset, f, p.TypesInfo)
			nMap += m
			if m > 0 {
				changed = true
			}
			if *yield {
				y := insertYields(p.Fset, f, p.TypesInfo)
				nYield += y
				if y > 0 {
					changed = true
				}
			}
			if !changed {
				continue
			}
			astutil.AddNamedImport(p.Fset, f, "simrt", simrtPath)
			var buf bytes.Buffer
			if err := format.Node(&buf, p.Fset, f); err != nil {
				die("format %s: %v", name, err)
			}
			if err := os.WriteFile(name, buf.Bytes(), 0o644); err != nil {
				die("write %s: %v", name, err)
			}
		}
	}
	if *hooksDir != "" {
		ents, _ := os.ReadDir(*hooksDir)
		for _, e := range ents {
			if e.IsDir() {
				continue
			}
			// hook sources are stored as *.go.txt so that they are not part of
			// any package under /verif
			n := strings.TrimSuffix(e.Name(), ".txt")
			if err := copyFile(filepath.Join(*hooksDir, e.Name()), filepath.Join(*dst, n)); err != nil {
				die("copy hook: %v", err)
			}
		}
	}
	if *harnessDir != "" {
		if err := copyTree(*harnessDir, filepath.Join(*dst, "zzverif", "harness")); err != nil {
			die("copy harness: %v", err)
		}
	}
	if *yield && *simrtDir != "" {
		woven := "package simrt\n\nfunc init() { Woven = true }\n"
		if err := os.WriteFile(filepath.Join(*dst, "zzverif", "simrt", "zz_woven.go"), []byte(woven), 0o644); err != nil {
			die("write zz_woven.go: %v", err)
		}
	}
	sj, _ := json.Marshal(sites)
	_ = os.MkdirAll(filepath.Join(*dst, "zzverif"), 0o755)
	if err := os.WriteFile(filepath.Join(*dst, "zzverif", "sites.json"), sj, 0o644); err != nil {
		die("write sites: %v", err)
	}
	fmt.Printf("simbuild: map-range sites=%d yield sites=%d\n", nMap, nYield)
}

func copyTree(src, dst string) error {
	return filepath.WalkDir(src, func(p string, d fs.DirEntry, err error) error {
		if err != nil {
			return err
		}
		rel, _ := filepath.Rel(src, p)
		if d.IsDir() {
			if d.Name() == ".git" || d.Name() == "zzverif" {
				return filepath.SkipDir
			}
			return os.MkdirAll(filepath.Join(dst, rel), 0o755)
		}
		if !d.Type().IsRegular() {
			return nil
		}
		return copyFile(p, filepath.Join(dst, rel))
	})
}

func copyFile(src, dst string) error {
	in, err := os.Open(src)
	if err != nil {
		return err
	}
	defer in.Close()
	if err := os.MkdirAll(filepath.Dir(dst), 0o755); err != nil {
		return err
	}
	out, err := os.Create(dst)
	if err != nil {
		return err
	}
	if _, err := io.Copy(out, in); err != nil {
		out.Close()
		return err
	}
	return out.Close()
}

func simrtCall(fn string, args ...ast.Expr) *ast.CallExpr {
	return &ast.CallExpr{
		Fun:  &ast.SelectorExpr{X: ast.NewIdent("simrt"), Sel: ast.NewIdent(fn)},
		Args: args,
	}
}

func intLit(n int) ast.Expr {
	return &ast.BasicLit{Kind: token.INT, Value: fmt.Sprint(n)}
}

func isBlank(e ast.Expr) bool {
	if e == nil {
		return true
	}
	id, ok := e.(*ast.Ident)
	return ok && id.Name == "_"
}

// pure reports whether e is an identifier / selector chain, i.e. can be
// evaluated twice without side effects.
func pure(e ast.Expr) bool {
	switch x := e.(type) {
	case *ast.Ident:
		return true
	case *ast.SelectorExpr:
		return pure(x.X)
	case *ast.ParenExpr:
		return pure(x.X)
	case *ast.StarExpr:
		return pure(x.X)
	}
	return false
}

func rewriteMapRanges(fset *token.FileSet, f *ast.File, info *types.Info) int {
	n := 0
	astutil.Apply(f, func(c *astutil.Cursor) bool {
		rs, ok := c.Node().(*ast.RangeStmt)
		if !ok {
			return true
		}
		tv, ok := info.Types[rs.X]
		if !ok {
			return true
		}
		if _, isMap := tv.Type.Underlying().(*types.Map); !isMap {
			return true
		}
		id := nextID
		nextID++
		// An operand that cannot be evaluated twice (a composite literal, a
		// call) is evaluated once into a temporary in an enclosing block.
		mapExpr := rs.X
		var hoist ast.Stmt
		if !pure(rs.X) {
			if _, labelled := c.Parent().(*ast.LabeledStmt); labelled {
				die("%s: labelled range over a map expression with possible side effects is not supported by the T1 rewrite", fset.Position(rs.Pos()))
			}
			tmp := ast.NewIdent(fmt.Sprintf("zzm%d", id))
			hoist = &ast.AssignStmt{Lhs: []ast.Expr{tmp}, Tok: token.DEFINE, Rhs: []ast.Expr{rs.X}}
			mapExpr = ast.NewIdent(tmp.Name)
		}
		sites = append(sites, site{ID: id, Kind: "maprange", Pos: fset.Position(rs.Pos()).String()})
		kv := fmt.Sprintf("zzk%d", id)
		vv := fmt.Sprintf("zzv%d", id)
		ov := fmt.Sprintf("zzok%d", id)
		var pre []ast.Stmt
		valIdent := ast.NewIdent("_")
		if !isBlank(rs.Value) {
			valIdent = ast.NewIdent(vv)
		}
		pre = append(pre,
			&ast.AssignStmt{
				Lhs: []ast.Expr{valIdent, ast.NewIdent(ov)},
				Tok: token.DEFINE,
				Rhs: []ast.Expr{&ast.IndexExpr{X: mapExpr, Index: ast.NewIdent(kv)}},
			},
			&ast.IfStmt{
				Cond: &ast.UnaryExpr{Op: token.NOT, X: ast.NewIdent(ov)},
				Body: &ast.BlockStmt{List: []ast.Stmt{&ast.BranchStmt{Tok: token.CONTINUE}}},
			},
		)
		var lhs, rhs []ast.Expr
		if !isBlank(rs.Key) {
			lhs = append(lhs, rs.Key)
			rhs = append(rhs, ast.NewIdent(kv))
		}
		if !isBlank(rs.Value) {
			lhs = append(lhs, rs.Value)
			rhs = append(rhs, ast.NewIdent(vv))
		}
		if len(lhs) > 0 {
			tok := rs.Tok
			if tok == token.ILLEGAL {
				tok = token.ASSIGN
			}
			pre = append(pre, &ast.AssignStmt{Lhs: lhs, Tok: tok, Rhs: rhs})
		}
		body := &ast.BlockStmt{List: append(pre, rs.Body.List...)}
		woven := &ast.RangeStmt{
			Key:   ast.NewIdent("_"),
			Value: ast.NewIdent(kv),
			Tok:   token.DEFINE,
			X:     simrtCall("MapKeys", intLit(id), mapExpr),
			Body:  body,
		}
		if hoist != nil {
			c.Replace(&ast.BlockStmt{List: []ast.Stmt{hoist, woven}})
		} else {
			c.Replace(woven)
		}
		n++
		return true
	}, nil)
	return n
}

// syncOp classifies a call as one of the sync package's lock operations:
// +1 acquires (Lock, RLock), -1 releases (Unlock, RUnlock), 2 is Once.Do.
func syncOp(info *types.Info, call *ast.CallExpr) int {
	sel, ok := call.Fun.(*ast.SelectorExpr)
	if !ok || info == nil {
		return 0
	}
	var fn *types.Func
	if s, ok := info.Selections[sel]; ok {
		fn, _ = s.Obj().(*types.Func)
	} else if o, ok := info.Uses[sel.Sel]; ok {
		fn, _ = o.(*types.Func)
	}
	if fn == nil || fn.Pkg() == nil || fn.Pkg().Path() != "sync" {
		return 0
	}
	recv := ""
	if sig, ok := fn.Type().(*types.Signature); ok && sig.Recv() != nil {
		t := sig.Recv().Type()
		if p, ok := t.(*types.Pointer); ok {
			t = p.Elem()
		}
		if n, ok := t.(*types.Named); ok {
			recv = n.Obj().Name()
		}
	}
	switch {
	case (recv == "Mutex" || recv == "RWMutex") && (fn.Name() == "Lock" || fn.Name() == "RLock"):
		return 1
	case (recv == "Mutex" || recv == "RWMutex") && (fn.Name() == "Unlock" || fn.Name() == "RUnlock"):
		return -1
	case recv == "Once" && fn.Name() == "Do":
		return 2
	}
	return 0
}

func insertYields(fset *token.FileSet, f *ast.File, info *types.Info) int {
	n := 0
	curFn := ""
	var doList func(list []ast.Stmt) []ast.Stmt
	doList = func(list []ast.Stmt) []ast.Stmt {
		out := make([]ast.Stmt, 0, 2*len(list))
		for _, s := range list {
			id := nextID
			nextID++
			sites = append(sites, site{ID: id, Kind: "yield", Pos: fset.Position(s.Pos()).String(), Fn: curFn})
			out = append(out, &ast.ExprStmt{X: simrtCall("Yield", intLit(id))})
			hold := func(d int) ast.Stmt { return &ast.ExprStmt{X: simrtCall("Hold", intLit(d))} }
			switch st := s.(type) {
			case *ast.ExprStmt:
				if call, ok := st.X.(*ast.CallExpr); ok {
					switch syncOp(info, call) {
					case 1:
						out = append(out, hold(1), s)
						n++
						continue
					case -1:
						out = append(out, s, hold(-1))
						n++
						continue
					case 2:
						out = append(out, hold(1), s, hold(-1))
						n++
						continue
					}
				}
			case *ast.DeferStmt:
				if syncOp(info, st.Call) == -1 {
					// runs after the deferred Unlock (LIFO)
					out = append(out, &ast.DeferStmt{Call: simrtCall("Hold", intLit(-1))}, s)
					n++
					continue
				}
			}
			out = append(out, s)
			n++
		}
		return out
	}
	var walk func(node ast.Node)
	skip := map[*ast.BlockStmt]bool{}
	walk = func(node ast.Node) {
		ast.Inspect(node, func(x ast.Node) bool {
			switch b := x.(type) {
			case *ast.SwitchStmt:
				skip[b.Body] = true
			case *ast.TypeSwitchStmt:
				skip[b.Body] = true
			case *ast.SelectStmt:
				skip[b.Body] = true
			case *ast.BlockStmt:
				if b != nil && !skip[b] {
					// children first (they are visited by Inspect after we
					// return true, on the *new* list, which contains the
					// original statements)
					b.List = doList(b.List)
				}
			case *ast.CaseClause:
				b.Body = doList(b.Body)
			case *ast.CommClause:
				b.Body = doList(b.Body)
			}
			return true
		})
	}
	for _, d := range f.Decls {
		fd, ok := d.(*ast.FuncDecl)
		if !ok || fd.Body == nil {
			continue
		}
		if fd.Recv == nil && fd.Name.Name == "init" {
			continue
		}
		curFn = fd.Name.Name
		walk(fd.Body)
	}
	return n
}
