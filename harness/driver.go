package main

import (
	"github.com/veraison/psatoken/zzverif/simrt"
	"bytes"
	"encoding/json"
	"fmt"
	"io"
	"os"
	"os/exec"
	"path/filepath"
	"runtime/debug"
	"sort"
	"strings"
	"time"
)

// ---------------------------------------------------------------- worker

type foundViolation struct {
	Run   int       `json:"run"`
	Seed  uint64    `json:"seed"`
	V     Violation `json:"violation"`
	Trace *Trace    `json:"trace"`
}

type workerOut struct {
	Runs       int              `json:"runs"`
	Evals      int              `json:"evals"`
	OpsRun     int              `json:"ops"`
	Steps      uint64           `json:"steps"`
	Faults     map[string]int   `json:"faults"`
	Probes     map[string]int   `json:"probes"`
	Shapes     []uint64         `json:"shapes"` // distinct non-trivial shapes
	NonTrivial int              `json:"nontrivial"`
	Viol       []foundViolation `json:"viol"`
	ViolCount  int              `json:"viol_count"`
	Samples    []*Trace         `json:"samples"`
	Digests    []string         `json:"digests,omitempty"`
	Fatal      string           `json:"fatal,omitempty"`
	TimedOut   bool             `json:"timed_out,omitempty"`
}

func runSeed(seed uint64, prop string, idx int) uint64 {
	return Mix(Mix(seed, hash64(prop)), uint64(idx)+1)
}

func worldFor(ps *propSpec, idx int) World {
	return worlds[ps.Worlds[idx%len(ps.Worlds)]]
}

func runWorker(ps *propSpec, tier string, seed uint64, from, to, stride int, digests bool, budget int) *workerOut {
	if stride < 1 {
		stride = 1
	}
	out := &workerOut{Faults: map[string]int{}, Probes: map[string]int{}}
	shapes := map[uint64]bool{}
	classes := map[string]int{}
	start := time.Now()
	for idx := from; idx < to; idx += stride {
		if budget > 0 && idx > from && time.Since(start) > time.Duration(budget)*time.Second {
			out.TimedOut = true
			break
		}
		w := worldFor(ps, idx)
		rs := runSeed(seed, ps.ID, idx)
		tr := w.Gen(ps.ID, tier, idx, NewRng(rs))
		tr.Seed = rs
		var res *Result
		if ps.Isolated {
			res = execIsolated(ps.ID, tr)
		} else {
			res = guardedExec(w, ps.ID, tr)
		}
		out.Runs++
		if res.Fatal != "" {
			out.Fatal = fmt.Sprintf("run %d (seed %d): %s", idx, rs, res.Fatal)
			out.Viol = append(out.Viol, foundViolation{Run: idx, Seed: rs, Trace: tr})
			break
		}
		out.Evals += res.Evals
		out.OpsRun += res.OpsRun
		out.Steps += res.Steps
		for k, v := range res.Faults {
			out.Faults[k] += v
		}
		for k, v := range res.Probes {
			addProbe(out.Probes, k, v)
		}
		if res.NonTrivial {
			out.NonTrivial++
			if !shapes[res.Shape] {
				shapes[res.Shape] = true
				if len(out.Samples) < 2 {
					out.Samples = append(out.Samples, tr)
				}
			}
		}
		if digests {
			out.Digests = append(out.Digests, fmt.Sprintf("%d:%016x:%016x", idx, hash64(traceJSON(tr)), res.Digest()))
		}
		if len(res.Viol) > 0 {
			if cz, ok := w.(Concretiser); ok {
				tr = cz.Concretise(tr, res)
			}
		}
		for _, v := range res.Viol {
			if v.Prop != ps.ID {
				continue
			}
			out.ViolCount++
			classes[v.Class()]++
			if classes[v.Class()] <= 2 && len(out.Viol) < 12 {
				out.Viol = append(out.Viol, foundViolation{Run: idx, Seed: rs, V: v, Trace: tr})
			}
		}
	}
	for s := range shapes {
		out.Shapes = append(out.Shapes, s)
	}
	sort.Slice(out.Shapes, func(i, j int) bool { return out.Shapes[i] < out.Shapes[j] })
	return out
}

// addProbe sums counters, except those named max_*, which keep the maximum.
func addProbe(m map[string]int, k string, v int) {
	if strings.HasPrefix(k, "max_") {
		if v > m[k] {
			m[k] = v
		}
		return
	}
	m[k] += v
}

func traceJSON(t *Trace) string {
	b, _ := json.Marshal(t)
	return string(b)
}

// ---------------------------------------------------------------- known findings

type knownFinding struct {
	Property  string `json:"property"`
	Oracle    string `json:"oracle"`
	Signature string `json:"signature"`
	What      string `json:"what"`
}

type knownFile struct {
	Findings []knownFinding `json:"findings"`
	Fixed    []string       `json:"fixed"`
}

func loadKnown(path string) *knownFile {
	kf := &knownFile{}
	if path == "" {
		return kf
	}
	b, err := os.ReadFile(path)
	if err != nil {
		return kf
	}
	if err := json.Unmarshal(b, kf); err != nil {
		fmt.Fprintf(os.Stderr, "harness: cannot parse known findings file: %v\n", err)
		os.Exit(2)
	}
	return kf
}

func (k *knownFile) match(v Violation) *knownFinding {
	if v.Sig == "" {
		return nil
	}
	for i := range k.Findings {
		f := &k.Findings[i]
		if f.Property == v.Prop && f.Oracle == v.Oracle && f.Signature == v.Sig {
			return f
		}
	}
	return nil
}

// ---------------------------------------------------------------- executing single traces

func execTrace(ps *propSpec, tr *Trace) *Result {
	w := worlds[tr.World]
	if w == nil {
		r := newResult()
		r.Fatal = "unknown world " + tr.World
		return r
	}
	if ps.Isolated {
		return execIsolated(ps.ID, tr)
	}
	return guardedExec(w, ps.ID, tr)
}

// guardedExec turns a panic that escapes a world (library code panicking on a
// path no oracle wraps) into harness trouble with the stack, never into a
// pass and never into a VIOLATION of a property it cannot be attributed to.
func guardedExec(w World, prop string, tr *Trace) (res *Result) {
	defer func() {
		if r := recover(); r != nil {
			res = newResult()
			res.Fatal = fmt.Sprintf("panic escaped the world %s: %v\n%s", w.Name(), r, tail(string(debug.Stack()), 1500))
		}
	}()
	return w.Exec(prop, tr)
}

type resultWire struct {
	Viol       []Violation
	Evals      int
	OpsRun     int
	Faults     map[string]int
	Probes     map[string]int
	NonTrivial bool
	Shape      uint64
	Steps      uint64
	Digest     uint64
	Fatal      string
	Log        []string
	Extra      map[string]string
}

func toWire(r *Result, withLog bool) *resultWire {
	w := &resultWire{Viol: r.Viol, Evals: r.Evals, OpsRun: r.OpsRun, Faults: r.Faults, Probes: r.Probes,
		NonTrivial: r.NonTrivial, Shape: r.Shape, Steps: r.Steps, Digest: r.Digest(), Fatal: r.Fatal, Extra: r.Extra}
	if withLog {
		w.Log = r.Log
	}
	return w
}

func fromWire(w *resultWire) *Result {
	r := newResult()
	r.Viol = w.Viol
	r.Evals, r.OpsRun, r.NonTrivial, r.Shape, r.Steps, r.Fatal = w.Evals, w.OpsRun, w.NonTrivial, w.Shape, w.Steps, w.Fatal
	if w.Faults != nil {
		r.Faults = w.Faults
	}
	if w.Probes != nil {
		r.Probes = w.Probes
	}
	r.Log = []string{fmt.Sprintf("digest:%016x", w.Digest)}
	r.Extra = w.Extra
	return r
}

// execOne runs one trace file in this process and prints the wire result.
func execOne(path, prop string) int {
	var b []byte
	var err error
	if path == "-" {
		b, err = io.ReadAll(os.Stdin)
	} else {
		b, err = os.ReadFile(path)
	}
	if err != nil {
		fmt.Fprintln(os.Stderr, err)
		return 2
	}
	var tr Trace
	if err := json.Unmarshal(b, &tr); err != nil {
		fmt.Fprintln(os.Stderr, err)
		return 2
	}
	w := worlds[tr.World]
	if w == nil {
		fmt.Fprintln(os.Stderr, "unknown world", tr.World)
		return 2
	}
	if hb := os.Getenv("VERIF_HEARTBEAT"); hb != "" {
		go simrt.Heartbeat(hb, func(p string, b []byte) error { return os.WriteFile(p, b, 0o644) }, func() { time.Sleep(2 * time.Second) })
	}
	res := w.Exec(prop, &tr)
	out, _ := json.Marshal(toWire(res, false))
	fmt.Println("RESULT " + string(out))
	return 0
}

// startWithRetry starts a child process, retrying a few times when the system
// is momentarily out of process slots or memory (EAGAIN / ENOMEM under heavy
// load): a transient resource shortage must not turn into a verdict.
func startWithRetry(cmd *exec.Cmd) error {
	var err error
	for attempt := 0; attempt < 8; attempt++ {
		if err = cmd.Start(); err == nil {
			return nil
		}
		// exec.Cmd cannot be started twice: rebuild it
		c2 := exec.Command(cmd.Path, cmd.Args[1:]...)
		c2.Env, c2.Dir, c2.Stdin, c2.Stdout, c2.Stderr = cmd.Env, cmd.Dir, cmd.Stdin, cmd.Stdout, cmd.Stderr
		*cmd = *c2
		time.Sleep(time.Duration(200*(attempt+1)) * time.Millisecond)
	}
	return err
}

// isolatedRunner is set by worlds that need their own process environment
// (W-CONC: GOMAXPROCS=1 + race log; W-MEM: address-space cap).
var isolatedRunner = map[string]func(prop string, tr *Trace) *Result{}

func execIsolated(prop string, tr *Trace) *Result {
	if f := isolatedRunner[tr.World]; f != nil {
		return f(prop, tr)
	}
	return worlds[tr.World].Exec(prop, tr)
}

// ---------------------------------------------------------------- minimiser

// minimise shrinks a failing trace while the same violation class persists.
func minimise(ps *propSpec, tr *Trace, class string, maxExec int) (*Trace, int) {
	execs := 0
	began := time.Now()
	fails := func(c *Trace) (bool, int) {
		// bounded in executions and in wall time (a violation that makes every
		// execution slow - a hang caught by a watchdog - must not stall the report)
		if execs >= maxExec || (execs > 3 && time.Since(began) > 300*time.Second) {
			return false, -1
		}
		execs++
		res := execTrace(ps, c)
		for _, v := range res.Viol {
			if v.Class() == class {
				return true, v.OpIdx
			}
		}
		return false, -1
	}
	cur := tr.Clone()
	ok, at := fails(cur)
	if !ok {
		return tr, execs
	}
	// 1. nothing after the violating step matters
	if at >= 0 && at+1 < len(cur.Ops) {
		c := cur.Clone()
		c.Ops = c.Ops[:at+1]
		if ok, _ := fails(c); ok {
			cur = c
		}
	}
	// 2. ddmin over operations
	n := 2
	for len(cur.Ops) >= 2 && execs < maxExec {
		chunk := (len(cur.Ops) + n - 1) / n
		reduced := false
		for start := 0; start < len(cur.Ops); start += chunk {
			end := start + chunk
			if end > len(cur.Ops) {
				end = len(cur.Ops)
			}
			c := cur.Clone()
			c.Ops = append(append([]Op{}, cur.Ops[:start]...), cur.Ops[end:]...)
			if len(c.Ops) == 0 {
				continue
			}
			if ok, _ := fails(c); ok {
				cur = c
				if n > 2 {
					n--
				}
				reduced = true
				break
			}
		}
		if !reduced {
			if chunk <= 1 {
				break
			}
			n *= 2
			if n > len(cur.Ops) {
				n = len(cur.Ops)
			}
		}
	}
	// 3. simplify individual operations (drop faults first, then arguments)
	w := worlds[cur.World]
	for pass := 0; pass < 2; pass++ {
		for i := 0; i < len(cur.Ops) && execs < maxExec; i++ {
			for _, alt := range w.Simplify(cur.Ops[i]) {
				c := cur.Clone()
				c.Ops[i] = alt
				if ok, _ := fails(c); ok {
					cur = c
					break
				}
			}
		}
	}
	// 4. simpler configurations (e.g. fewer context switches)
	if cs, ok := w.(CfgShrinker); ok {
		for progress := true; progress && execs < maxExec; {
			progress = false
			for _, c := range cs.ShrinkCfg(cur) {
				if ok, _ := fails(c); ok {
					cur = c
					progress = true
					break
				}
				if execs >= maxExec {
					break
				}
			}
		}
	}
	return cur, execs
}

// ---------------------------------------------------------------- replay files

type replayDoc struct {
	Property    string    `json:"property"`
	Oracle      string    `json:"oracle"`
	Signature   string    `json:"signature,omitempty"`
	Message     string    `json:"message"`
	VerifSeed   uint64    `json:"verif_seed"`
	Run         int       `json:"run"`
	RunSeed     uint64    `json:"run_seed"`
	Minimised   bool      `json:"minimised"`
	OriginalOps int       `json:"original_ops"`
	MinExecs    int       `json:"minimiser_executions"`
	Note        string    `json:"note,omitempty"`
	Violation   Violation `json:"violation"`
	Trace       *Trace    `json:"trace"`
	// Prelude: concrete traces the same worker process had executed before this
	// one, kept (minimised) only when the violation depends on state the library
	// keeps across calls for the lifetime of the process; replay executes them
	// first, in order, in the same process.
	Prelude []*Trace `json:"prelude,omitempty"`
}

func replayFile(path string) int {
	b, err := os.ReadFile(path)
	if err != nil {
		fmt.Fprintln(os.Stderr, err)
		return 2
	}
	var doc replayDoc
	if err := json.Unmarshal(b, &doc); err != nil {
		fmt.Fprintln(os.Stderr, err)
		return 2
	}
	ps := props[doc.Property]
	if ps == nil || doc.Trace == nil {
		fmt.Fprintln(os.Stderr, "replay: unknown property or empty trace")
		return 2
	}
	fmt.Printf("replay: property=%s world=%s run_seed=%d ops=%d prelude=%d\n", doc.Property, doc.Trace.World, doc.RunSeed, len(doc.Trace.Ops), len(doc.Prelude))
	for _, pt := range doc.Prelude {
		if pt != nil {
			_ = execTrace(ps, pt)
		}
	}
	res := execTrace(ps, doc.Trace)
	if res.Fatal != "" {
		fmt.Println("replay: harness trouble:", res.Fatal)
		return 2
	}
	want := doc.Violation.Class()
	for _, v := range res.Viol {
		if v.Class() == want {
			fmt.Printf("REPRODUCED property=%s oracle=%s op=%d\n  %s\n", v.Prop, v.Oracle, v.OpIdx, v.Msg)
			fmt.Printf("VIOLATION property=%s replay=%s\n", v.Prop, path)
			return 1
		}
	}
	for _, v := range res.Viol {
		if v.Prop == doc.Property {
			fmt.Printf("DIFFERENT-VIOLATION property=%s oracle=%s op=%d\n  %s\n", v.Prop, v.Oracle, v.OpIdx, v.Msg)
		}
	}
	fmt.Println("NOT-REPRODUCED")
	return 0
}

// ---------------------------------------------------------------- driver

func drive(ps *propSpec, tier string, seed uint64, evidencePath, replayDir, findingsPath string, nworkers, runsOverride, budget int) int {
	start := time.Now()
	fmt.Printf("VERIF_SEED=%d property=%s tier=%s worlds=%v\n", seed, ps.ID, tier, ps.Worlds)
	runs := ps.QuickRuns
	if tier == "thorough" {
		runs = ps.ThoroughRuns
	}
	if runsOverride > 0 {
		runs = runsOverride
	}
	if budget == 0 {
		budget = 240
		if tier == "thorough" {
			budget = 3000
		}
	}
	if nworkers < 1 {
		nworkers = 1
	}
	if nworkers > runs {
		nworkers = runs
	}
	known := loadKnown(findingsPath)

	type wres struct {
		out *workerOut
		err error
	}
	ch := make(chan wres, nworkers)
	launched := 0
	for w := 0; w < nworkers; w++ {
		// worker w takes run indices w, w+n, w+2n, ...: which runs exist does
		// not depend on the worker count, only who executes them
		from, to := w, runs
		if from >= to {
			continue
		}
		launched++
		go func(from, to int) {
			cmd := exec.Command(os.Args[0], "-worker", "-prop", ps.ID, "-tier", tier, "-seed", fmt.Sprint(seed),
				"-from", fmt.Sprint(from), "-to", fmt.Sprint(to), "-stride", fmt.Sprint(nworkers), "-budget", fmt.Sprint(budget))
			var so, se bytes.Buffer
			cmd.Stdout, cmd.Stderr = &so, &se
			err := startWithRetry(cmd)
			if err == nil {
				err = cmd.Wait()
			}
			if err != nil {
				ch <- wres{nil, fmt.Errorf("worker [%d,%d): %v\n%s", from, to, err, tail(se.String(), 4000))}
				return
			}
			var out workerOut
			if err := json.Unmarshal(so.Bytes(), &out); err != nil {
				ch <- wres{nil, fmt.Errorf("worker [%d,%d): bad output: %v\n%s", from, to, err, tail(so.String(), 2000))}
				return
			}
			ch <- wres{&out, nil}
		}(from, to)
	}
	total := &workerOut{Faults: map[string]int{}, Probes: map[string]int{}}
	shapes := map[uint64]bool{}
	var samples []*Trace
	trouble := ""
	for i := 0; i < launched; i++ {
		r := <-ch
		if r.err != nil {
			trouble = r.err.Error()
			continue
		}
		o := r.out
		if o.Fatal != "" {
			trouble = o.Fatal
		}
		total.Runs += o.Runs
		total.Evals += o.Evals
		total.OpsRun += o.OpsRun
		total.Steps += o.Steps
		total.NonTrivial += o.NonTrivial
		total.ViolCount += o.ViolCount
		total.TimedOut = total.TimedOut || o.TimedOut
		for k, v := range o.Faults {
			total.Faults[k] += v
		}
		for k, v := range o.Probes {
			addProbe(total.Probes, k, v)
		}
		for _, s := range o.Shapes {
			shapes[s] = true
		}
		total.Viol = append(total.Viol, o.Viol...)
		samples = append(samples, o.Samples...)
	}
	if trouble != "" {
		fmt.Println("HARNESS-TROUBLE:", trouble)
		if len(total.Viol) > 0 && total.Viol[len(total.Viol)-1].Trace != nil && replayDir != "" {
			_ = os.MkdirAll(replayDir, 0o755)
			p := filepath.Join(replayDir, fmt.Sprintf("%s-trouble.json", ps.ID))
			b, _ := json.MarshalIndent(total.Viol[len(total.Viol)-1], "", " ")
			_ = os.WriteFile(p, b, 0o644)
			fmt.Println("trace written to", p)
		}
		return 2
	}

	// group violations by class, smallest run index first (worker-count independent)
	sort.Slice(total.Viol, func(i, j int) bool { return total.Viol[i].Run < total.Viol[j].Run })
	byClass := map[string]foundViolation{}
	var order []string
	for _, fv := range total.Viol {
		c := fv.V.Class()
		if _, ok := byClass[c]; !ok {
			byClass[c] = fv
			order = append(order, c)
		}
	}
	exit := 0
	newViol := 0
	if replayDir != "" {
		_ = os.MkdirAll(replayDir, 0o755)
	}
	for n, c := range order {
		fv := byClass[c]
		if kf := known.match(fv.V); kf != nil {
			fmt.Printf("KNOWN-FINDING: property=%s %s [oracle=%s signature=%s run=%d]\n", fv.V.Prop, kf.What, fv.V.Oracle, fv.V.Sig, fv.Run)
			continue
		}
		if n >= 6 {
			fmt.Printf("(further violation class not minimised: %s)\n", c)
			exit = 1
			continue
		}
		budgetExecs := ps.MinExecs
		if budgetExecs == 0 {
			budgetExecs = 600
		}
		mt, execs := minimise(ps, fv.Trace, c, budgetExecs)
		doc := replayDoc{Property: fv.V.Prop, Oracle: fv.V.Oracle, Signature: fv.V.Sig, Message: fv.V.Msg, VerifSeed: seed,
			Run: fv.Run, RunSeed: fv.Seed, Minimised: true, OriginalOps: len(fv.Trace.Ops), MinExecs: execs, Violation: fv.V, Trace: mt}
		// refresh the message/op index from the minimised trace
		res := execTrace(ps, mt)
		for _, v := range res.Viol {
			if v.Class() == c {
				doc.Violation = v
				doc.Message = v.Msg
				break
			}
		}
		name := fmt.Sprintf("%s-%s-%016x.json", ps.ID, sanitize(fv.V.Oracle), hash64(traceJSON(mt)))
		path := filepath.Join(replayDir, name)
		writeJSON(path, doc)
		// the minimised file must reproduce in a fresh process
		if !reproducesFresh(path) {
			doc.Trace = fv.Trace
			doc.Minimised = false
			doc.Note = "the minimised trace did not reproduce in a fresh process; this is the original trace"
			writeJSON(path, doc)
			if !reproducesFresh(path) {
				// state that outlives a run (a process-wide cache or free list in the library): replay the
				// runs this worker had executed before, then shrink that prelude
				if !ps.Isolated && withPrelude(ps, tier, seed, nworkers, fv, &doc, path) {
					doc.Note = fmt.Sprintf("the violation depends on state the library keeps across calls for the lifetime of the process: the trace alone does not reproduce it, the trace after %d earlier run(s) of the same worker does (prelude, minimised)", len(doc.Prelude))
					writeJSON(path, doc)
				} else {
					doc.Prelude = nil
					doc.Note += "; the original trace did not reproduce in a fresh process either (harness determinism bug to investigate) - the violation was observed in-process on real code"
					writeJSON(path, doc)
				}
			}
		}
		fmt.Printf("violation: property=%s oracle=%s run=%d run_seed=%d ops=%d->%d\n  %s\n", fv.V.Prop, fv.V.Oracle, fv.Run, fv.Seed, len(fv.Trace.Ops), len(doc.Trace.Ops), doc.Message)
		fmt.Printf("VIOLATION property=%s replay=%s\n", fv.V.Prop, path)
		exit = 1
		newViol++
	}

	wall := time.Since(start).Seconds()
	// probes that must have been reached
	if exit == 0 && tier == "thorough" && !(total.TimedOut && total.Runs < ps.ThoroughRuns/10) {
		// (a batch the wall cap cut to less than a tenth of its size - a very busy machine - is not
		// asked to have reached every rare probe)
		for _, p := range ps.MustProbes {
			if wovenSites.loaded && len(wovenSites.mapRanges) == 0 && (p == "map_ranges_under_chosen_order" || p == "map.order") {
				// the library at this tree has no map range at all: nothing for the T1 seam to own
				continue
			}
			if total.Probes[p] == 0 && total.Faults[p] == 0 {
				fmt.Printf("HARNESS-TROUBLE: probe %q was never reached in a thorough batch; the workload needs fixing\n", p)
				exit = 2
			}
		}
	}
	if evidencePath != "" {
		if len(samples) > 3 {
			samples = samples[:3]
		}
		var sampleAny []any
		for _, s := range samples {
			sampleAny = append(sampleAny, s)
		}
		if len(sampleAny) == 0 {
			sampleAny = append(sampleAny, "no non-trivial trace in this batch")
		}
		rph := 0.0
		if wall > 0 {
			rph = float64(total.Runs) / wall * 3600
		}
		ev := map[string]any{
			"property_id": ps.ID,
			"tier":        tier,
			"seed":        seed,
			"level":       "exploration",
			"coverage": map[string]any{
				"evaluations":           total.Evals,
				"distinct_nontrivial":   len(shapes),
				"rule":                  ps.Rule,
				"samples":               sampleAny,
				"runs":                  total.Runs,
				"runs_nontrivial":       total.NonTrivial,
				"runs_per_hour":         int64(rph),
				"operations_executed":   total.OpsRun,
				"logical_steps":         total.Steps,
				"simulated_time":        "no clock exists in the library; logical steps are the only time",
				"faults_fired":          total.Faults,
				"probes":                total.Probes,
				"worlds":                ps.Worlds,
				"workers":               nworkers,
				"real_components":       ps.Real,
				"stub_components":       ps.Stubs,
				"batch_cut_by_wall_cap": total.TimedOut,
				"exhaustive":            false,
				"woven_map_range_sites": wovenSites.mapRanges,
				"woven_yield_sites":     wovenSites.yields,
				"verif_seed_derivation": "run seed = mix(mix(VERIF_SEED, hash(property id)), run index + 1); worker w of n executes indices w, w+n, ...",
			},
			"assumptions": ps.Assumptions,
			"wall_s":      wall,
			"violations":  newViol,
		}
		if extra := evidenceExtra[ps.ID]; extra != nil {
			for k, v := range extra(total) {
				ev["coverage"].(map[string]any)[k] = v
			}
		}
		writeJSON(evidencePath, ev)
	}
	fmt.Printf("done: runs=%d evaluations=%d distinct_nontrivial=%d faults=%v wall=%.1fs exit=%d\n", total.Runs, total.Evals, len(shapes), total.Faults, wall, exit)
	return exit
}

// woven sites, as reported by simbuild (sites.json)
var wovenSites struct {
	loaded    bool
	mapRanges []string
	yields    int
}

func loadSites(path string) {
	if path == "" {
		return
	}
	b, err := os.ReadFile(path)
	if err != nil {
		return
	}
	var sites []struct {
		Kind string `json:"kind"`
		Pos  string `json:"pos"`
	}
	if json.Unmarshal(b, &sites) != nil {
		return
	}
	wovenSites.loaded = true
	for _, s := range sites {
		switch s.Kind {
		case "maprange":
			pos := s.Pos
			if i := strings.LastIndex(pos, "/"); i >= 0 {
				pos = pos[i+1:]
			}
			wovenSites.mapRanges = append(wovenSites.mapRanges, pos)
		case "yield":
			wovenSites.yields++
		}
	}
}

// evidenceExtra lets a property add measured keys to its coverage object.
var evidenceExtra = map[string]func(total *workerOut) map[string]any{}

// withPrelude rebuilds the runs the worker that found fv had executed before
// it (indices w, w+n, ... below fv.Run), checks that the violation reproduces in
// a fresh process after them, and shrinks the list: shortest suffix first, then
// single removals, at most 60 fresh executions.
func withPrelude(ps *propSpec, tier string, seed uint64, nworkers int, fv foundViolation, doc *replayDoc, path string) bool {
	if nworkers < 1 {
		nworkers = 1
	}
	var pre []*Trace
	for idx := fv.Run % nworkers; idx < fv.Run; idx += nworkers {
		w := worldFor(ps, idx)
		rs := runSeed(seed, ps.ID, idx)
		tr := w.Gen(ps.ID, tier, idx, NewRng(rs))
		tr.Seed = rs
		pre = append(pre, tr)
	}
	if len(pre) == 0 {
		return false
	}
	if len(pre) > 1500 {
		pre = pre[len(pre)-1500:] // keep the file bounded; older state is given up on
	}
	try := func(l []*Trace) bool {
		doc.Prelude = l
		writeJSON(path, *doc)
		return reproducesFresh(path)
	}
	if !try(pre) {
		return false
	}
	execs := 1
	// the shortest suffix that still does it
	for k := 1; k < len(pre) && execs < 30; k *= 2 {
		execs++
		if try(pre[len(pre)-k:]) {
			pre = pre[len(pre)-k:]
			break
		}
	}
	// drop single runs
	for i := 0; i < len(pre) && len(pre) > 1 && execs < 60; {
		cand := append(append([]*Trace{}, pre[:i]...), pre[i+1:]...)
		execs++
		if try(cand) {
			pre = cand
		} else {
			i++
		}
	}
	doc.Prelude = pre
	return true
}

func reproducesFresh(path string) bool {
	cmd := exec.Command(os.Args[0], "-replay", path)
	out, _ := cmd.CombinedOutput()
	return cmd.ProcessState != nil && cmd.ProcessState.ExitCode() == 1 && strings.Contains(string(out), "REPRODUCED property=")
}

func writeJSON(path string, v any) {
	b, err := json.MarshalIndent(v, "", " ")
	if err != nil {
		fmt.Fprintln(os.Stderr, "harness: marshal:", err)
		os.Exit(2)
	}
	_ = os.MkdirAll(filepath.Dir(path), 0o755)
	if err := os.WriteFile(path, append(b, '\n'), 0o644); err != nil {
		fmt.Fprintln(os.Stderr, "harness: write:", err)
		os.Exit(2)
	}
}

func sanitize(s string) string {
	var sb strings.Builder
	for _, r := range s {
		if (r >= 'a' && r <= 'z') || (r >= 'A' && r <= 'Z') || (r >= '0' && r <= '9') || r == '-' {
			sb.WriteRune(r)
		} else {
			sb.WriteByte('_')
		}
	}
	return sb.String()
}

func tail(s string, n int) string {
	if len(s) <= n {
		return s
	}
	return s[len(s)-n:]
}
