// Command harness is the deterministic-simulation harness for veraison/psatoken.
// It is compiled inside a scratch copy of the library (see /verif/check).
//
// Modes:
//
//	harness -prop C19 -tier quick -seed N -evidence F -replays DIR   (driver)
//	harness -worker -prop C19 -tier quick -seed N -from A -to B      (internal)
//	harness -replay FILE                                             (replay a violation)
//	harness -exec1 FILE -prop C19                                    (internal: run one trace, print result)
//	harness -digest -prop C19 -seed N -from A -to B                  (determinism self-test)
package main

import (
	"encoding/json"
	"flag"
	"fmt"
	"os"
	"strconv"

	psatoken "github.com/veraison/psatoken"
)

type propSpec struct {
	ID           string
	Worlds       []string
	QuickRuns    int
	ThoroughRuns int
	Isolated     bool // traces execute in their own OS process
	MinExecs     int  // minimiser execution budget (0 = 600)
	Rule         string
	Real         []string
	Stubs        []string
	Assumptions  []string
	// MustProbes must be non-zero over a thorough batch, else exit 2.
	MustProbes []string
}

var pristineReg any

var worlds = map[string]World{}

func registerWorld(w World) { worlds[w.Name()] = w }

var props = map[string]*propSpec{}

var commonReal = []string{"github.com/veraison/psatoken (T1-rewritten scratch copy of /repo's working tree)", "psatoken/encoding",
	"veraison/go-cose sign/verify/envelope codec", "fxamacker/cbor", "veraison/eat", "encoding/json", "Go crypto (ECDSA RFC6979, Ed25519, RSASSA-PSS)"}

func main() {
	var (
		prop      = flag.String("prop", "", "property id")
		tier      = flag.String("tier", "quick", "quick|thorough")
		seedS     = flag.String("seed", "", "VERIF_SEED (default: env VERIF_SEED or 1)")
		evidence  = flag.String("evidence", "", "evidence file to write")
		replays   = flag.String("replays", "", "directory for replay files")
		findings  = flag.String("findings", "", "known findings file")
		worker    = flag.Bool("worker", false, "worker mode")
		from      = flag.Int("from", 0, "first run index")
		to        = flag.Int("to", 0, "one past last run index")
		stride    = flag.Int("stride", 1, "run index stride")
		replay    = flag.String("replay", "", "replay file")
		exec1     = flag.String("exec1", "", "execute one trace file and print the result")
		digest    = flag.Bool("digest", false, "print per-run digests")
		workers   = flag.Int("workers", 16, "worker processes")
		runs      = flag.Int("runs", 0, "override number of runs")
		budget    = flag.Int("budget", 0, "wall-clock cap in seconds per batch (0 = tier default)")
		sitesFile = flag.String("sites", "", "sites.json from simbuild")
		aslimit   = flag.Int("aslimit", 0, "address-space cap in MiB for this process (isolated children)")
	)
	flag.Parse()
	setAddressSpaceLimit(*aslimit)
	// hook T3: the register as package initialisation left it, before anything else touches it
	pristineReg = psatoken.VerifRegistrySnapshot()
	loadKeys()
	registerAll()
	loadSites(*sitesFile)

	seed := uint64(1)
	s := *seedS
	if s == "" {
		s = os.Getenv("VERIF_SEED")
	}
	if s != "" {
		v, err := strconv.ParseUint(s, 10, 64)
		if err != nil {
			// accept negative / odd input by hashing it
			v = hash64(s)
		}
		seed = v
	}

	switch {
	case *replay != "":
		os.Exit(replayFile(*replay))
	case *exec1 != "":
		os.Exit(execOne(*exec1, *prop))
	case *worker || *digest:
		ps := props[*prop]
		if ps == nil {
			fmt.Fprintln(os.Stderr, "unknown property", *prop)
			os.Exit(2)
		}
		out := runWorker(ps, *tier, seed, *from, *to, *stride, *digest, *budget)
		enc := json.NewEncoder(os.Stdout)
		if err := enc.Encode(out); err != nil {
			fmt.Fprintln(os.Stderr, err)
			os.Exit(2)
		}
	default:
		ps := props[*prop]
		if ps == nil {
			fmt.Fprintln(os.Stderr, "unknown property", *prop)
			os.Exit(2)
		}
		os.Exit(drive(ps, *tier, seed, *evidence, *replays, *findings, *workers, *runs, *budget))
	}
}
