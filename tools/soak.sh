#!/bin/bash
# tools/soak.sh [seeds...]  - no-false-alarm soak on the unchanged tree: every check, quick tier
# scaled up x5, with several VERIF_SEED values; evidence goes to a scratch directory.
# Prints one line per (check, seed); exits non-zero if any run did not exit 0.
cd "$(dirname "$0")/.."
seeds="${@:-11 12 13}"
declare -A runs=( [C02]=8000 [C03]=12000 [C05]=8000 [C06]=4000 [C07]=9000 [C08]=20000 [C11]=100000 [C16]=9000 [C17]=900 [C18]=20000 [C19]=60000 )
O="$(mktemp -d /var/tmp/soak-XXXXXX)"; trap 'rm -rf "$O"' EXIT
bad=0
for sd in $seeds; do
  for id in C19 C08 C03 C11 C02 C18 C05 C06 C16 C07 C17; do
    out="$(VERIF_SEED=$sd VERIF_OUT="$O" ./check $id quick -runs ${runs[$id]} -budget 1200 2>&1)"; rc=$?
    echo "seed=$sd $id exit=$rc $(echo "$out" | grep -m1 '^done:' | cut -c1-90)"
    if [ $rc -ne 0 ]; then bad=1; echo "$out" | grep -A3 '^violation:\|TROUBLE' | head -12; fi
  done
done
exit $bad
