package simrt

import "runtime"

// Turn scheduler for W-CONC (property C17).
//
// Real goroutines, but exactly one makes progress at a time and the simulator
// names which one at every yield point. All scheduler state is plain package
// variables touched only from //go:norace functions, and hand-over is a spin on
// runtime.Gosched(): no channel, mutex or atomic is involved, so the race
// detector sees NO happens-before edge between tasks and still reports every
// unsynchronised access pair in the library, while the interleaving is fully
// decided by (seed | recorded schedule).
//
// The running task is always `turn`, so Yield needs no goroutine identity.

const MaxTasks = 128

// ErrStepBudget is the panic value of an exhausted step budget.
const ErrStepBudget = stepBudgetError("simrt: step budget exhausted")

type stepBudgetError string

func (e stepBudgetError) Error() string { return string(e) }

// Woven reports whether this build contains T2 yield points (set by simbuild
// through the generated file zz_woven.go).
var Woven bool

// Seg is one run-length element of a schedule: task T ran for N yields.
type Seg struct {
	T int `json:"t"`
	N int `json:"n"`
}

// Modes
const (
	ModeRandom = 0 // switch with probability P/65536 at each yield
	ModeReplay = 1 // follow Sched
	ModePCT    = 2 // priority schedule with change points
)

var (
	// Steps counts executed yield points, also when no simulation is active
	// (deterministic logical time for single-threaded runs).
	Steps uint64
	// StepLimit, when non-zero, makes the yield point that takes Steps past
	// it panic with ErrStepBudget (a load-independent stand-in for a wall-clock
	// deadline, used by C06). It disarms itself when it fires.
	StepLimit uint64

	active  bool
	turn    int
	ntasks  int
	alive   [MaxTasks]bool
	nalive  int
	mode    int
	rngS    uint64
	switchP uint64
	// replay
	sched    []Seg
	schedPos int
	schedRem int
	// pct
	prio    [MaxTasks]int
	chg     []uint64
	chgPos  int
	lowNext int
	ysteps  uint64
	// recording
	rec []Seg
	// goroutine ids of the registered tasks: a yield executed by any other
	// goroutine (one the library started by itself) passes straight through
	taskGoid [MaxTasks]uint64
	Foreign  int // yields executed by goroutines that are not tasks
	// probes
	InCall   [MaxTasks]bool
	CurObj   [MaxTasks]int
	Switches int
	Overlaps int // switch into a task that is itself mid-call
	SameObj  int // ... and both are working on the same shared object
	Diverged bool
)

//go:norace
func next64() uint64 {
	rngS += 0x9e3779b97f4a7c15
	z := rngS
	z = (z ^ (z >> 30)) * 0xbf58476d1ce4e5b9
	z = (z ^ (z >> 27)) * 0x94d049bb133111eb
	return z ^ (z >> 31)
}

// Config describes one concurrent run.
type Config struct {
	Tasks   int
	Mode    int
	Seed    uint64
	SwitchP int      // ModeRandom: probability numerator over 65536
	Sched   []Seg    // ModeReplay
	Changes []uint64 // ModePCT: yield indices at which the running task is demoted
}

// Begin arms the scheduler. Call from the main goroutine before spawning the
// tasks; every task must call Enter(id) first and Exit(id) last.
//
//go:norace
func Begin(c Config) {
	ntasks = c.Tasks
	nalive = c.Tasks
	for i := 0; i < MaxTasks; i++ {
		alive[i] = i < c.Tasks
		InCall[i] = false
		CurObj[i] = -1
		prio[i] = 0
		holdDepth[i] = 0
	}
	HeldYields = 0
	mode = c.Mode
	rngS = c.Seed
	switchP = uint64(c.SwitchP)
	sched = c.Sched
	schedPos, schedRem = 0, 0
	chg = c.Changes
	chgPos = 0
	lowNext = -1
	ysteps = 0
	rec = rec[:0]
	Switches, Overlaps, SameObj = 0, 0, 0
	Foreign = 0
	Diverged = false
	if mode == ModePCT {
		// random distinct initial priorities (higher runs first)
		for i := 0; i < ntasks; i++ {
			prio[i] = i + 1
		}
		for i := ntasks - 1; i > 0; i-- {
			j := int(next64() % uint64(i+1))
			prio[i], prio[j] = prio[j], prio[i]
		}
	}
	turn = -2 // nobody yet
	active = true
	turn = pick(-1)
	noteRun(turn)
}

// End disarms the scheduler and returns the recorded schedule.
//
//go:norace
func End() []Seg {
	active = false
	out := make([]Seg, len(rec))
	copy(out, rec)
	return out
}

//go:norace
func noteRun(t int) {
	if t < 0 {
		return
	}
	if n := len(rec); n > 0 && rec[n-1].T == t {
		rec[n-1].N++
		return
	}
	rec = append(rec, Seg{T: t, N: 1})
}

// pick chooses the task to run after the current yield of task me (me = -1 at
// start or when me has just exited).
//
//go:norace
func pick(me int) int {
	if nalive == 0 {
		return -1
	}
	switch mode {
	case ModeReplay:
		for schedPos < len(sched) {
			if schedRem == 0 {
				schedRem = sched[schedPos].N
			}
			t := sched[schedPos].T
			if schedRem > 0 && t >= 0 && t < ntasks && alive[t] {
				schedRem--
				if schedRem == 0 {
					schedPos++
				}
				return t
			}
			// segment names a dead task (possible after minimisation): skip it
			schedRem = 0
			schedPos++
		}
		// schedule exhausted: let the current task run on, else lowest alive
		if len(sched) > 0 {
			Diverged = true
		}
		if me >= 0 && alive[me] {
			return me
		}
		for i := 0; i < ntasks; i++ {
			if alive[i] {
				return i
			}
		}
		return -1
	case ModePCT:
		if me >= 0 && chgPos < len(chg) && ysteps >= chg[chgPos] {
			chgPos++
			prio[me] = lowNext
			lowNext--
		}
		best := -1
		for i := 0; i < ntasks; i++ {
			if alive[i] && (best < 0 || prio[i] > prio[best]) {
				best = i
			}
		}
		return best
	default:
		if me >= 0 && alive[me] && (next64()&0xffff) >= switchP {
			return me
		}
		k := int(next64() % uint64(nalive))
		for i := 0; i < ntasks; i++ {
			if alive[i] {
				if k == 0 {
					return i
				}
				k--
			}
		}
		return -1
	}
}

// Yield is the T2 yield point.
//
//go:norace
func Yield(site int) {
	Steps++
	if StepLimit != 0 && Steps > StepLimit {
		StepLimit = 0
		panic(ErrStepBudget)
	}
	if !active {
		return
	}
	me := turn
	if me < 0 || taskGoid[me] != curGoid() {
		// not the task whose turn it is: a goroutine the library itself started.
		// The simulator does not own it; the Go scheduler does (the race detector
		// still watches it).
		Foreign++
		return
	}
	if holdDepth[me] > 0 {
		// inside a critical section of the library (sync.Mutex / RWMutex held, or
		// inside sync.Once.Do): a task never parks while it holds a real lock, or
		// the task it hands over to could block on that lock with the turn in hand
		HeldYields++
		return
	}
	ysteps++
	nxt := pick(me)
	noteRun(nxt)
	if nxt == me || nxt < 0 {
		return
	}
	Switches++
	if InCall[nxt] {
		Overlaps++
		if CurObj[nxt] >= 0 && CurObj[nxt] == CurObj[me] {
			SameObj++
		}
	}
	turn = nxt
	for turn != me {
		runtime.Gosched()
	}
}

var holdDepth [MaxTasks]int

// HeldYields counts yield points passed through because the task held a lock.
var HeldYields int

// Hold is woven around the library's own lock operations: +1 before
// Lock/RLock/Once.Do, -1 after Unlock/RUnlock/Once.Do returns.
//
//go:norace
func Hold(d int) {
	if !active {
		return
	}
	me := turn
	if me < 0 || taskGoid[me] != curGoid() {
		return
	}
	holdDepth[me] += d
	if holdDepth[me] < 0 {
		holdDepth[me] = 0
	}
}

// Enter parks the calling goroutine until it is task id's turn.
//
//go:norace
func Enter(id int) {
	taskGoid[id] = curGoid()
	for turn != id {
		runtime.Gosched()
	}
}

// curGoid reads the current goroutine's id from the first line of its stack
// trace ("goroutine 123 [running]:"). About a microsecond; only used while a
// concurrent simulation is active.
//
//go:norace
func curGoid() uint64 {
	var buf [40]byte
	n := runtime.Stack(buf[:], false)
	var id uint64
	for i := len("goroutine "); i < n; i++ {
		c := buf[i]
		if c < '0' || c > '9' {
			break
		}
		id = id*10 + uint64(c-'0')
	}
	return id
}

// Exit retires task id and hands the turn on.
//
//go:norace
func Exit(id int) {
	alive[id] = false
	nalive--
	InCall[id] = false
	nxt := pick(-1)
	noteRun(nxt)
	turn = nxt
}

// MarkCall is called by the harness task around each library call.
//
//go:norace
func MarkCall(id int, in bool, obj int) {
	InCall[id] = in
	if in {
		CurObj[id] = obj
	} else {
		CurObj[id] = -1
	}
}

// Heartbeat writes the step counter to path every two seconds until the
// process exits, so that a parent can tell a slow child from a stuck one. It
// runs in a goroutine of its own that never enters the turn protocol.
//
//go:norace
func Heartbeat(path string, write func(string, []byte) error, sleep func()) {
	for {
		_ = write(path, []byte(itoa(Steps)))
		sleep()
	}
}

//go:norace
func itoa(v uint64) string {
	if v == 0 {
		return "0"
	}
	var b [20]byte
	i := len(b)
	for v > 0 {
		i--
		b[i] = byte('0' + v%10)
		v /= 10
	}
	return string(b[i:])
}
