#!/bin/bash
# tools/trymutant.sh <dir with patch.diff [+ demo_test.go]> <tier> <property id>...
# Applies the patch to a scratch worktree of /repo's HEAD (never to /repo),
# confirms the pinned suite still passes and the demonstration fails, runs the
# named checks against the scratch copy, prints one line per check, cleans up.
set -u
export GOFLAGS=-mod=mod GOPROXY=off GOSUMDB=off GOTOOLCHAIN=local
d="$(readlink -f "$1")"; tier="$2"; shift 2
W="$(mktemp -d /var/tmp/mutwt-XXXXXX)"; rmdir "$W"
git -C /repo worktree add -q --detach "$W" "${BASE:-HEAD}" || exit 2
O="$(mktemp -d /var/tmp/mutout-XXXXXX)"
cleanup() { git -C /repo worktree remove --force "$W" >/dev/null 2>&1; rm -rf "$W" "$O"; }
trap cleanup EXIT
if ! git -C "$W" apply "$d/patch.diff" 2>/dev/null; then
  if ! git -C "$W" apply --3way "$d/patch.diff" >/dev/null 2>&1; then
    # context moved by a later fix: commit in /repo
    if ! (cd "$W" && git reset -q --hard && patch -s -p1 --fuzz=3 --no-backup-if-mismatch < "$d/patch.diff" >/dev/null 2>&1); then echo "MUTANT $d: patch does not apply to HEAD"; exit 3; fi
  fi
fi
(cd "$W" && go build ./... ) || { echo "MUTANT $d: does not build"; exit 3; }
if (cd "$W" && go test -vet=off -count=1 ./... >/dev/null 2>&1); then suite=pass; else suite=FAIL; fi
demo=none
if [ -f "$d/demo_test.go" ]; then
  cp "$d/demo_test.go" "$W/zz_demo_test.go"
  if (cd "$W" && go test -vet=off -count=1 -run 'TestDemo' . >/dev/null 2>&1); then demo=passes-with-mutant; else demo=fails-with-mutant; fi
  rm -f "$W/zz_demo_test.go"
fi
echo "MUTANT $(basename $(dirname $d))/$(basename $d): suite=$suite demo=$demo"
for id in "$@"; do
  out="$(VERIF_REPO="$W" VERIF_OUT="$O" "${VERIF_CHECK:-/verif/check}" "$id" "$tier" ${EXTRA:-} 2>&1)"; rc=$?
  v="$(echo "$out" | grep -c '^VIOLATION')"
  first="$(echo "$out" | grep -m1 '^violation:' | cut -c1-150)"
  echo "  check $id $tier: exit=$rc violations=$v $first"
  if [ $rc -eq 2 ]; then echo "$out" | tail -25 > "/tmp/mut/exit2-$(basename $(dirname $d))-$(basename $d)-$id.log"; fi
  if [ "${SHOW:-0}" = 1 ]; then echo "$out" | grep -A2 '^violation:' | head -20; fi
done
