package main

func registerAll() {
	registerWorld(evidWorld{})
	registerWorld(netWorld{})
	registerWorld(histWorld{})
	registerWorld(obsWorld{})

	stubsEvid := []string{"FaultySigner (wrapper around the real go-cose signer)", "deterministic crypto.Signer wrapper over pool keys",
		"sim extension profiles XP1/XP2 (thin structs over the real encoding helpers, fault switch)", "committed key pool"}

	props["C19"] = &propSpec{
		ID: "C19", Worlds: []string{"W-EVID"}, QuickRuns: 4000, ThoroughRuns: 400000,
		Rule: "one run = one history of 1..30 operations {SetClaims, Sign, ValidateAndSign, UnmarshalCOSE, Verify, outside mutation} on one Evidence with signer faults and user-codec faults at PRNG-chosen positions; " +
			"non-trivial = at least one fault actually fired and at least one Verify was evaluated after it; distinct = distinct hash of (operation-kind+fault sequence, claims-pool profiles/defects, signer algorithms, token kinds)",
		Real: commonReal, Stubs: stubsEvid,
		Assumptions: []string{"go-cose's own Sign1 decoder decides whether an envelope is adoptable in the reference model",
			"the ledger of genuinely signed (protected,payload,signature) triples is complete because all signing in a run goes through the harness",
			"ECDSA signature malleability is not reachable by the injected faults"},
		MustProbes: []string{"binding_evaluated", "verify_after_failed_sign", "fresh_verify_ok", "unmarshal_claims_fail_envelope_ok", "sig.err", "sig.empty", "sig.badalg", "sig.shortsig", "codec.marshal_err"},
	}
	props["C08"] = &propSpec{
		ID: "C08", Worlds: []string{"W-EVID"}, QuickRuns: 4000, ThoroughRuns: 400000,
		Rule: "one run = one history over an Evidence and a pool of claims-sets in assorted states (valid, invalid by construction, invalid by later mutation, extension codec with faults) exercising the seven validating gates; " +
			"non-trivial = at least one gate evaluated with claims whose Validate() fails and one with claims whose Validate() succeeds; distinct = distinct hash of (operation-kind+fault sequence, pools)",
		Real: commonReal, Stubs: stubsEvid,
		Assumptions: []string{"the oracle is differential: Validate() of the real code and the non-validating sibling are the reference, no validation constant is mirrored"},
	}

	stubsNet := []string{"channel (in-flight slots, fault injector)", "verifier actors (trust store = one pool key each)", "deterministic crypto.Signer wrapper over pool keys",
		"sim extension profile XP2", "committed key pool"}
	props["C02"] = &propSpec{
		ID: "C02", Worlds: []string{"W-NET"}, QuickRuns: 2500, ThoroughRuns: 300000,
		Rule: "one run = 2..5 attesters (all seven algorithms, several keys per algorithm) emitting 2..6 tokens through reused Evidence objects; every token is delivered un-damaged to the right verifier, then 1..4 copies each take 1..3 channel faults (bit flip, byte substitution, multi-byte edit, truncation, extension, splice of protected/payload/signature from another in-flight token, header surgery, length-field inflation, concatenation) and are delivered to a verifier holding the right or a wrong key; the genuine token is also misrouted. " +
			"Runs 0..13 of every batch instead deliver EVERY single-bit flip of one token per (algorithm x profile). " +
			"non-trivial = at least one damaged token still decoded, so that Verify was the deciding step; distinct = distinct hash of (operation+fault kind sequence, claims shapes, algorithms, keys)",
		Real: commonReal, Stubs: stubsNet,
		Assumptions: []string{"ledger completeness: every signature in a run is produced through the harness, so 'genuinely signed by key k' is the set of (protected,payload,signature) triples recorded at emit time",
			"ECDSA (r, n-s) malleability is not reachable by the injected faults; any accepted token with a signature differing from the ledger is reported",
			"differences confined to the outer framing or the unprotected bucket are not 'modification' in the property's sense (the covered bytes are unchanged)"},
		MustProbes: []string{"damaged_still_decoded", "accepted_genuine", "misroute_rejected", "bitsweep_tokens", "net.splice", "net.hdr", "net.leninflate", "net.truncate", "net.bitflip", "net.bytesub", "net.multi", "net.extend", "net.concat", "net.misroute"},
	}
	props["C03"] = &propSpec{
		ID: "C03", Worlds: []string{"W-NET"}, QuickRuns: 2500, ThoroughRuns: 300000,
		Rule: "fault-free arm of W-NET: one run = 2..5 attesters x 2..6 emissions of generated valid claims-sets (both profiles + an extension profile, built by field assignment or through the setters) with a healthy signer of each of the seven algorithms, through a reused Evidence (SetClaims+ValidateAndSign | Sign) or a fresh one; each emission is checked at the attester and each token is delivered un-damaged (sometimes twice, sometimes also to a wrong key) to three kinds of verifier (decode, decode-and-validate, reused Evidence). " +
			"non-trivial = at least one complete sign->decode->verify round trip succeeded; distinct = distinct hash of (claims shape: profile, optional-claim subset, hash sizes, component count and optional fields; algorithm; key; emit mode)",
		Real: commonReal, Stubs: stubsNet,
		Assumptions: []string{"'valid claims-set' is decided by the library's own Validate() (a generated set it rejects is skipped and counted under probe emit_claims_not_valid)",
			"the quantifier 'all valid claims-sets' is sampled, not enumerated", "go-cose's verifier, called directly with empty external data, is the interoperability reference"},
		MustProbes: []string{"round_trip_ok", "accepted_genuine"},
	}

	props["C11"] = &propSpec{
		ID: "C11", Worlds: []string{"W-HIST"}, QuickRuns: 20000, ThoroughRuns: 3000000,
		Rule: "one run = one object (profile-1, profile-2, extension-on-P1, extension-on-P2 claims-set from NewClaims; a software component; a component container) and a history of 1..40 setter / Add / Replace calls with valid and invalid arguments interleaved and repeated, followed by a rebuild of a fresh object from the last successful call per claim in a permuted order, 1..3 times over. " +
			"Runs 0..16 of every batch are a deterministic prelude: every byte-string setter x every length 0..80 (exhaustive sub-space). " +
			"non-trivial = at least one call whose value the profile's validation accepts and one it rejects; distinct = distinct hash of (object kind, sequence of (setter, outcome))",
		Real: commonReal, Stubs: []string{"sim extension profiles XP1/XP2 (thin structs over the real encoding helpers)"},
		Assumptions: []string{"the reference for 'validation accepts the value for that claim' is Validate() of the real code on a probe claims-set that is otherwise valid and received the value without the setter (struct fields / container codec); no validation constant is mirrored",
			"which claims are mandatory is derived the same way (drop the claim from a valid set, ask Validate())",
			"an empty non-nil component list is the exempt 'clear' operation; only the library's own component type is used"},
		MustProbes: []string{"setter_ok", "setter_failed", "rebuild_compared", "all_mandatory_set", "sw_clear"},
	}

	props["C18"] = &propSpec{
		ID: "C18", Worlds: []string{"W-OBS"}, QuickRuns: 6000, ThoroughRuns: 600000,
		Rule: "one run = a pool of 2..6 objects (claims-sets built valid or invalid by field assignment or setters; claims decoded from CBOR / JSON / COSE messages, some structurally damaged at a tree node and re-signed; signing Evidence; decoded Evidence), values deliberately shared across objects and profiles, and a history of 1..30 steps: a read-side call (Validate, each getter, component getters, plain and validating encoders, Verify under any pool key or nil, Evidence.MarshalJSON / GetInstanceID / GetImplementationID) on the long-lived twin, the same call as the very first call on a fresh twin, or the channel overwriting / reusing the receive buffer an object was decoded from. After every step every object of the pool is re-observed (getters, validation class, CBOR and JSON bytes, Verify verdict under all 13 keys and nil) in a rotating order. " +
			"non-trivial = at least one read-side call on a pool holding both a valid and an invalid object; distinct = distinct hash of (object kinds and dynamic types, call sequence, whether a buffer was overwritten)",
		Real: commonReal, Stubs: []string{"channel owning the receive buffers", "deterministic crypto.Signer wrapper over pool keys", "sim extension profiles XP1/XP2", "committed key pool"},
		Assumptions: []string{"'observably unchanged' is judged through the public API (getters, Validate class, encodings, Verify verdicts), not by reflection, so an internal cache would not be reported",
			"reference Verify verdicts come from a fresh Evidence per key decoded from a pristine copy of the message"},
		MustProbes: []string{"virgin_call", "buf.scribble", "buf.reuse", "invalid_object", "valid_object"},
	}
}
