package main

func registerAll() {
	registerWorld(evidWorld{})

	stubsEvid := []string{"FaultySigner (wrapper around the real go-cose signer)", "deterministic crypto.Signer wrapper over pool keys",
		"sim extension profiles XP1/XP2 (thin structs over the real encoding helpers, fault switch)", "committed key pool"}

	props["C19"] = &propSpec{
		ID: "C19", Worlds: []string{"W-EVID"}, QuickRuns: 4000, ThoroughRuns: 400000,
		Rule: "one run = one history of 1..30 operations {SetClaims, Sign, ValidateAndSign, UnmarshalCOSE, Verify, outside mutation} on one Evidence with signer faults and user-codec faults at PRNG-chosen positions; " +
			"non-trivial = at least one fault actually fired and at least one Verify was evaluated after it; distinct = distinct hash of (operation-kind+fault sequence, claims-pool profiles/defects, signer algorithms, token kinds)",
		Real: commonReal, Stubs: stubsEvid,
		Assumptions: []string{"go-cose's own Sign1 decoder decides whether an envelope is adoptable in the reference model",
			"the ledger of genuinely signed (protected,payload,signature) triples is complete because all signing in a run goes through the harness",
			"ECDSA signature malleability is not reachable by the injected faults"},
		MustProbes: []string{"binding_evaluated", "verify_after_failed_sign", "fresh_verify_ok", "unmarshal_claims_fail_envelope_ok", "sig.err", "sig.empty", "sig.badalg", "sig.shortsig", "codec.marshal_err"},
	}
	props["C08"] = &propSpec{
		ID: "C08", Worlds: []string{"W-EVID"}, QuickRuns: 4000, ThoroughRuns: 400000,
		Rule: "one run = one history over an Evidence and a pool of claims-sets in assorted states (valid, invalid by construction, invalid by later mutation, extension codec with faults) exercising the seven validating gates; " +
			"non-trivial = at least one gate evaluated with claims whose Validate() fails and one with claims whose Validate() succeeds; distinct = distinct hash of (operation-kind+fault sequence, pools)",
		Real: commonReal, Stubs: stubsEvid,
		Assumptions: []string{"the oracle is differential: Validate() of the real code and the non-validating sibling are the reference, no validation constant is mirrored"},
	}
}
