#!/bin/bash
# Run once after a fresh restore, offline: builds the weaver, warms the build
# caches, and checks that the woven copy of /repo still passes its own tests.
set -u
VERIF="$(cd "$(dirname "${BASH_SOURCE[0]}")" && pwd)"
REPO="${VERIF_REPO:-/repo}"
export GOFLAGS=-mod=mod GOPROXY=off GOSUMDB=off GOTOOLCHAIN=local CGO_ENABLED=1
mkdir -p "$VERIF/.bin" "$VERIF/evidence" "$VERIF/replays"
(cd "$VERIF/tools/simbuild" && go build -o "$VERIF/.bin/simbuild" .) || { echo "setup: cannot build simbuild"; exit 2; }
S="$(mktemp -d "${VERIF_SCRATCH:-/var/tmp}/verif-setup-XXXXXX")" || exit 2
trap 'rm -rf "$S"' EXIT
"$VERIF/.bin/simbuild" -src "$REPO" -dst "$S/src" -yield -simrt "$VERIF/simrt" -harness "$VERIF/harness" -hooks "$VERIF/hooks" || { echo "setup: simbuild failed"; exit 2; }
# the T1+T2 rewrite must preserve behaviour: the repository's own tests on the woven copy
(cd "$S/src" && go test -vet=off -count=1 . ./encoding) || { echo "setup: pinned tests fail on the woven copy"; exit 2; }
# warm caches: plain and race-instrumented harness builds with go1.26.8
(cd "$S/src" && go1.26.8 build -trimpath -tags verif -o "$S/h1" ./zzverif/harness) || { echo "setup: harness build failed"; exit 2; }
(cd "$S/src" && go1.26.8 build -race -trimpath -tags verif -o "$S/h2" ./zzverif/harness) || { echo "setup: race harness build failed"; exit 2; }
echo "setup: ok"
