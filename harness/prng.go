package main

// splitmix64: the single source of every generated choice. Nothing in the
// harness draws from math/rand, crypto/rand or a clock.
type Rng struct{ s uint64 }

func NewRng(seed uint64) *Rng { return &Rng{s: seed} }

func (r *Rng) U64() uint64 {
	r.s += 0x9e3779b97f4a7c15
	z := r.s
	z = (z ^ (z >> 30)) * 0xbf58476d1ce4e5b9
	z = (z ^ (z >> 27)) * 0x94d049bb133111eb
	return z ^ (z >> 31)
}

// Intn returns a value in [0,n); n<=0 yields 0.
func (r *Rng) Intn(n int) int {
	if n <= 0 {
		return 0
	}
	return int(r.U64() % uint64(n))
}

// Range returns a value in [lo,hi].
func (r *Rng) Range(lo, hi int) int {
	if hi <= lo {
		return lo
	}
	return lo + r.Intn(hi-lo+1)
}

// Chance is true with probability num/den.
func (r *Rng) Chance(num, den int) bool { return r.Intn(den) < num }

func (r *Rng) Bytes(n int) []byte {
	b := make([]byte, n)
	for i := 0; i < n; i += 8 {
		v := r.U64()
		for j := 0; j < 8 && i+j < n; j++ {
			b[i+j] = byte(v >> (8 * uint(j)))
		}
	}
	return b
}

// Weighted picks an index with probability proportional to w[i].
func (r *Rng) Weighted(w []int) int {
	t := 0
	for _, x := range w {
		t += x
	}
	if t <= 0 {
		return 0
	}
	k := r.Intn(t)
	for i, x := range w {
		if k < x {
			return i
		}
		k -= x
	}
	return len(w) - 1
}

func (r *Rng) Perm(n int) []int {
	p := make([]int, n)
	for i := range p {
		p[i] = i
	}
	for i := n - 1; i > 0; i-- {
		j := r.Intn(i + 1)
		p[i], p[j] = p[j], p[i]
	}
	return p
}

// Mix derives an independent sub-seed.
func Mix(a, b uint64) uint64 {
	r := Rng{s: a ^ (b * 0xd6e8feb86659fd93)}
	r.U64()
	return r.U64()
}

// fnv-1a 64 for distinctness hashes and digests.
func hash64(parts ...string) uint64 {
	h := uint64(0xcbf29ce484222325)
	for _, p := range parts {
		for i := 0; i < len(p); i++ {
			h ^= uint64(p[i])
			h *= 0x100000001b3
		}
		h ^= 0xff
		h *= 0x100000001b3
	}
	return h
}
