// Package simrt is the run-time half of the simulator seams that simbuild
// weaves into a scratch copy of veraison/psatoken. It is copied into the
// scratch copy as github.com/veraison/psatoken/zzverif/simrt; nothing in /repo
// imports it.
//
// Seams:
//
//	T1  MapKeys   – every `range` over a map in the library goes through here,
//	                so iteration order is decided (and recorded) by the simulator.
//	T2  Yield     – statement-granular yield points (only in the -tags simyield
//	                build); a turn scheduler invisible to the race detector
//	                decides which task runs next. Also a deterministic step
//	                counter.
package simrt

import (
	"fmt"
	"sort"
)

// ---------------------------------------------------------------- T1

// OrderFn, when non-nil, is asked for a permutation of [0,n) each time a
// library map range starts. site identifies the range statement.
var OrderFn func(site int, n int) []int

// MapRanges counts executed map-range statements (reach probe).
var MapRanges int

// MapKeys returns the keys of m in a canonical order (sorted by their %v
// rendering) permuted by OrderFn. Without an OrderFn the canonical order is
// used, which is already deterministic - unlike the runtime's.
func MapKeys[K comparable, V any](site int, m map[K]V) []K {
	keys := make([]K, 0, len(m))
	for k := range m {
		keys = append(keys, k)
	}
	sort.Slice(keys, func(i, j int) bool {
		return fmt.Sprintf("%v", keys[i]) < fmt.Sprintf("%v", keys[j])
	})
	countRange()
	if OrderFn == nil || len(keys) < 2 {
		return keys
	}
	perm := OrderFn(site, len(keys))
	if len(perm) != len(keys) {
		return keys
	}
	out := make([]K, len(keys))
	seen := make([]bool, len(keys))
	for i, p := range perm {
		if p < 0 || p >= len(keys) || seen[p] {
			return keys // not a permutation: ignore
		}
		seen[p] = true
		out[i] = keys[p]
	}
	return out
}

// countRange bumps the reach probe. It is a simulator-owned counter touched
// from whichever task happens to run: kept out of the race detector's sight,
// like the rest of the scheduler state (an atomic would add happens-before
// edges between tasks and could hide a genuine library race).
//
//go:norace
func countRange() { MapRanges++ }
