#!/usr/bin/env python3
"""Prints the markdown table of seeded changes from /verif/seeded/*/meta.json (used in DESIGN.md §7.2)."""
import json, glob, os, re, collections
rows = []
for d in sorted(glob.glob('/verif/seeded/*/')):
    n = os.path.basename(d.rstrip('/'))
    m = json.load(open(d + 'meta.json'))
    needs = re.sub(r'\s+', ' ', m.get('needs_to_manifest', ''))
    first = needs.split('. ')[0][:150]
    caught = '; '.join(m.get('caught_by', [])) or '**not reported**'
    note = m.get('note', '')
    if 'blind run' in note:
        if not m.get('caught_by'):
            how = 'blind: missed, still not reported'
        elif 'MISSED' in note:
            how = 'blind: missed, then strengthened'
        else:
            how = 'blind: caught'
    elif 'before the first run' in note:
        how = 'strengthened on reading its description, before the first run'
    elif 'missed' in note.lower() or 'first run' in note.lower():
        how = 'missed at first, then strengthened'
    else:
        how = 'as built'
    rows.append((n, first, caught, how))
print('| change | what was changed (first line of its notes) | reported by | how |')
print('|---|---|---|---|')
for n, f, c, h in rows:
    print('| %s | %s | %s | %s |' % (n, f.replace('|', '/'), c.replace('|', '/'), h))
cnt = collections.Counter(h for *_, h in rows)
print()
print('Totals: %d changes; ' % len(rows) + '; '.join('%s: %d' % kv for kv in sorted(cnt.items())))
