package main

import (
	"reflect"
	"bytes"
	"encoding/json"
	"fmt"
	"os"
	"os/exec"
	"sort"
	"strings"

	"github.com/veraison/eat"
	psatoken "github.com/veraison/psatoken"
	"github.com/veraison/psatoken/zzverif/simrt"
)

// W-REG: the process-global profile register driven through histories of
// registration attempts, lookups, dispatching decodes (JSON ones under
// simulator-chosen map iteration orders, seam T1) and mutate-one-instance /
// read-the-other steps. Every history starts from the pristine register (hook
// T3). Serves C16 (append-only register, independent instances, order
// independence) and C07 (dispatch on the declared profile).

type RegCfg struct {
	Names []string `json:"names"`
}

type regWorld struct{}

func (regWorld) Name() string { return "W-REG" }

var regNamePool = []string{"http://sim.example/psa/a", "http://sim.example/psa/b", "http://sim.example/psa/c", "urn:sim:psa:d",
	"http://sim.example/psa/e", "https://sim.example/f", "http://sim.example/psa/g", "http://sim.example/h",
	"ACME_IOT_PROFILE_7", "sim profile 8", "ACME_IOT_PROFILE_7 ", " SIM_PADDED ", "http://sim.example/psa?a=1&b=<2>",
	"1.3.6.1.4.1.4128.42.7", "http://Sim.Example/psa/K",
	// names that read like fragments of the library's own error messages
	"vendor profile (claim not in profile 1)", "missing optional claim"}

// nameVariants: spellings that differ from a name only by letter case or by
// surrounding white space. They are different names; unless registered
// themselves they must stay unknown.
func nameVariants(names []string) []string {
	have := map[string]bool{}
	for _, n := range names {
		have[n] = true
	}
	out := []string{}
	if !have["/"] {
		have["/"] = true
		out = append(out, "/")
	}
	for _, n := range names {
		forms := []string{strings.ToLower(n), strings.ToUpper(n), " " + n, n + " ", strings.TrimSpace(n), n + "/", strings.TrimSuffix(n, "/")}
		if k := strings.Index(n, "://"); k > 0 {
			// spellings a URI parser folds back to n: upper-case scheme, empty fragment, empty query, default port
			forms = append(forms, strings.ToUpper(n[:k])+n[k:], n+"#", n+"?")
		}
		for _, v := range forms {
			if !have[v] && v != "" {
				have[v] = true
				out = append(out, v)
			}
		}
	}
	return out
}

const unknownName = "http://unknown.example/never-registered"

var regKinds = []string{"xp2", "xp1", "own", "opt", "two", "str", "xp1n", "loca", "locb", "xp2", "xp1", "own", "opt", "two", "str", "xp1n", "loca", "locb", "near", "noprof", "notag", "ptremb", "near265"}

// kinds whose claims carry an eat.Profile, i.e. whose name must be a URI or an OID
var kindNeedsURI = map[string]bool{"xp2": true, "own": true, "opt": true, "two": true, "loca": true, "locb": true, "near": true}

func isURIName(n string) bool {
	p := eat.Profile{}
	return p.Set(n) == nil
}

func goodKind(k string) bool {
	return k == "xp1" || k == "xp2" || k == "own" || k == "opt" || k == "two" || k == "str" || k == "xp1n" || k == "loca" || k == "locb" || k == "near"
}

var kindType = map[string]string{"p1": "*psatoken.P1Claims", "p2": "*psatoken.P2Claims", "xp1": "*main.XP1Claims",
	"xp2": "*main.XP2Claims", "own": "*main.XOwnClaims", "opt": "*main.XOptClaims", "two": "*main.XTwoClaims", "str": "*main.XStrClaims",
	"xp1n": "*main.XP1Claims", "loca": "*main.claims", "locb": "*main.claims", "near": "*main.XNearClaims"}
var kindTag = map[string]string{"p1": "psa-profile", "p2": "eat-profile", "xp1": "psa-profile", "xp2": "eat-profile", "own": "own-profile", "opt": "opt-profile", "two": "eat-profile", "str": "str-profile",
	"xp1n": "psa-profile", "loca": "la-profile", "locb": "lb-profile", "near": "eat-profile"}

func profileOfKind(kind, name string) psatoken.IProfile {
	switch kind {
	case "xp2":
		return XP2Profile{name}
	case "xp1":
		return XP1Profile{name}
	case "own":
		return XOwnProfile{name}
	case "opt":
		return XOptProfile{name}
	case "two":
		return XTwoProfile{name}
	case "str":
		return XStrProfile{name}
	case "xp1n":
		return XP1NProfile{name}
	case "loca":
		return localProfileA(name)
	case "locb":
		return localProfileB(name)
	case "ptremb":
		return XPtrProfile{name}
	case "near":
		return XNearProfile{name}
	case "near265":
		return Near265Profile{name}
	case "noprof":
		return NoProfProfile{name}
	case "notag":
		return NoTagProfile{name}
	case "p1":
		return psatoken.Profile1{}
	case "p2":
		return psatoken.Profile2{}
	}
	return nil
}

const nMutations = 16

func (regWorld) Gen(prop, tier string, idx int, r *Rng) *Trace {
	nNames := r.Range(1, 8)
	perm := r.Perm(len(regNamePool))
	var cfg RegCfg
	for i := 0; i < nNames; i++ {
		cfg.Names = append(cfg.Names, regNamePool[perm[i]])
	}
	all := append(append([]string{}, cfg.Names...), psatoken.Profile1Name, psatoken.Profile2Name)
	variants := nameVariants(all)
	n := r.Range(1, 40)
	w := []int{4, 2, 6, 2, 1}
	if prop == "C07" {
		w = []int{3, 1, 10, 1, 1}
	}
	var ops []Op
	registered := 0
	if r.Chance(1, 8) {
		// the very first use of the library in this process is a registration under a built-in name
		ops = append(ops, Op{K: "register", S: all[nNames+r.Intn(2)], T: regKinds[r.Intn(len(regKinds))], D: 7})
	}
	for i := 0; i < n; i++ {
		switch r.Weighted(w) {
		case 0: // register
			op := Op{K: "register", S: cfg.Names[r.Intn(nNames)], T: regKinds[r.Intn(len(regKinds))]}
			if r.Chance(1, 6) {
				// an existing built-in name
				op.S = all[nNames+r.Intn(2)]
			}
			ops = append(ops, op)
			registered++
		case 1:
			cands := append(append(append([]string{}, all...), unknownName, ""), variants...) // "": the key of the default entry
			ops = append(ops, Op{K: "newclaims", S: cands[r.Intn(len(cands))]})
		case 2:
			op := Op{K: "dispatch", A: r.Intn(1 << 16), L: []int{r.Intn(1000), r.Intn(1000), r.Intn(1000), r.Intn(1000), r.Intn(1000), r.Intn(1000)}}
			op.D = 2
			if tier == "thorough" {
				op.D = r.Range(2, 10)
			}
			ops = append(ops, op)
		case 3:
			op := Op{K: "indep", S: all[r.Intn(len(all))], T: all[r.Intn(len(all))], A: r.Intn(1 << 16), D: r.Intn(4)}
			k := r.Range(1, 8)
			for j := 0; j < k; j++ {
				op.L = append(op.L, r.Intn(nMutations))
			}
			op.B = r.Intn(k + 1)
			ops = append(ops, op)
		default:
			ops = append(ops, Op{K: "reregister", A: r.Intn(1 << 16), T: regKinds[r.Intn(len(regKinds))]})
		}
	}
	cj, _ := json.Marshal(cfg)
	return &Trace{World: "W-REG", Cfg: cj, Ops: ops}
}

// ---- probes

type regProbe struct {
	name     string // label
	ser      string // cbor | json
	doc      []byte
	declares []string // profile names this document mentions
	// reference dispatch
	c265    *string           // CBOR: text under key 265 (nil = absent)
	c265Odd bool              // CBOR: key 265 present, but not a text string (byte string, integer, tagged)
	weak    bool              // the property leaves the dispatch of this document open
	payload []byte            // cose: the claims inside the envelope
	p1claim *string           // text carried under the profile-1 profile claim (-75000 / psa-profile), when present
	members map[string]string // JSON: profile member -> string value ("\x00nonstring" for non-string)
	edge    bool              // a document in an unusual but legal spelling, favoured by the independence step
	pair    string            // the same claims-set in the other serialisation carries the same pair id
}

var regP1Body, regP2Body *ClaimsDesc

func regBodies() (*ClaimsDesc, *ClaimsDesc) {
	if regP1Body == nil {
		a := genValidClaims(NewRng(0x16a), "p1")
		b := genValidClaims(NewRng(0x16b), "p2")
		// lean: no optional claims, so that anything leaking in from elsewhere shows
		a.CertRef, a.VSI = nil, nil
		b.BootSeed, b.CertRef, b.VSI = nil, nil, nil
		a.XSw, b.XSw = false, false
		regP1Body, regP2Body = &a, &b
	}
	return regP1Body, regP2Body
}

func jsonEdit(doc []byte, key string, raw string, del bool) []byte {
	root, ok := parseJSONTree(doc)
	if !ok || root.kind != 'o' {
		return doc
	}
	found := false
	for i, k := range root.keys {
		if k == key {
			found = true
			if del {
				root.keys = append(append([]string{}, root.keys[:i]...), root.keys[i+1:]...)
				root.kids = append(append([]*jnode{}, root.kids[:i]...), root.kids[i+1:]...)
			} else {
				root.kids[i] = &jnode{kind: 'v', raw: raw}
			}
			break
		}
	}
	if !found && !del {
		root.keys = append(root.keys, key)
		root.kids = append(root.kids, &jnode{kind: 'v', raw: raw})
	}
	var sb bytes.Buffer
	root.write(&sb)
	return sb.Bytes()
}

func quote(s string) string {
	b, _ := json.Marshal(s)
	return string(b)
}

func buildRegProbes(names []string) []regProbe {
	p1, p2 := regBodies()
	var out []regProbe
	enc := func(d ClaimsDesc, js bool) []byte {
		c, err := d.build()
		if err != nil {
			return nil
		}
		var b []byte
		if js {
			b, err = psatoken.EncodeClaimsToJSON(c)
		} else {
			b, err = psatoken.EncodeClaimsToCBOR(c)
		}
		if err != nil {
			return nil
		}
		return b
	}
	add := func(p regProbe) {
		if p.doc != nil {
			out = append(out, p)
		}
	}
	all := append(append([]string{}, names...), psatoken.Profile1Name, psatoken.Profile2Name, unknownName)
	// case / white-space variants of every name: never registered by themselves unless they are pool names
	for _, v := range nameVariants(append(append([]string{}, names...), psatoken.Profile1Name, psatoken.Profile2Name)) {
		v := v
		dn := *p1
		dn.ProfClaim = nil
		if c := enc(dn, false); c != nil {
			if h, err := readHead(c, 0); err == nil && h.Major == 5 && h.Info != 31 {
				nb := append([]byte{}, encodeHead(5, h.Arg+1)...)
				nb = append(nb, c[h.HLen:]...)
				nb = append(nb, 0x19, 0x01, 0x09)
				nb = append(nb, encodeHead(3, uint64(len(v)))...)
				nb = append(nb, v...)
				add(regProbe{name: fmt.Sprintf("cbor/p1 body+265=%q (variant)", v), ser: "cbor", doc: nb, declares: []string{v}, c265: &v})
			}
		}
	}
	// ... and a profile-2 body announcing such a variant of a name as plain text under key 265
	for _, v := range nameVariants(append(append([]string{}, names...), psatoken.Profile2Name)) {
		v := v
		d2 := *p2
		d2.ProfClaim = sp(psatoken.Profile2Name)
		if c := enc(d2, false); len(c) > 5 && c[1] == 0x19 && c[2] == 0x01 && c[3] == 0x09 {
			if vEnd, err := walkItem(c, 4, 0, nil); err == nil {
				nb := append([]byte{}, c[:4]...)
				nb = append(nb, encodeHead(3, uint64(len(v)))...)
				nb = append(nb, v...)
				nb = append(nb, c[vEnd:]...)
				add(regProbe{name: fmt.Sprintf("cbor/p2 body+265=%q (variant)", v), ser: "cbor", doc: nb, declares: []string{v}, c265: &v})
			}
		}
	}
	for _, n := range all {
		n := n
		d2 := *p2
		d2.ProfClaim = sp(n)
		d1 := *p1
		d1.ProfClaim = sp(n)
		add(regProbe{name: "cbor/265=" + n, ser: "cbor", doc: enc(d2, false), declares: []string{n}, c265: &n, pair: "d2/" + n})
		// the same claims-set behind a tag whose number does not fit the initial byte (CWT 61, 1000, self-described CBOR)
		if c := enc(d2, false); c != nil {
			// (not tags 0 / 1: the CBOR library insists on a time value behind those, the embedding-aware
			// reader skips any tag, and the properties leave tagged claims-sets open)
			for _, th := range [][]byte{{0xd8, 0x3d}, {0xd9, 0x03, 0xe8}, {0xd9, 0xd9, 0xf7}} {
				add(regProbe{name: fmt.Sprintf("cbor/265=%s behind tag %x", n, th), ser: "cbor", doc: append(append([]byte{}, th...), c...), declares: []string{n}, c265: &n, pair: "d2/" + n})
			}
		}
		if c := enc(d2, false); len(c) > 4 && c[1] == 0x19 && c[2] == 0x01 && c[3] == 0x09 {
			// the same token with key 265 written in a non-shortest form, and with that pair moved to the end of the map
			nm := append([]byte{c[0], 0x1a, 0x00, 0x00, 0x01, 0x09}, c[4:]...)
			add(regProbe{name: "cbor/265(non-shortest key)=" + n, ser: "cbor", doc: nm, declares: []string{n}, c265: &n})
			if vEnd, err := walkItem(c, 4, 0, nil); err == nil {
				mv := append([]byte{c[0]}, c[vEnd:]...)
				mv = append(mv, c[1:vEnd]...)
				add(regProbe{name: "cbor/265(last key)=" + n, ser: "cbor", doc: mv, declares: []string{n}, c265: &n})
			}
		}
		// a profile-1 shaped token naming n under its own key: dispatch sees no key 265
		add(regProbe{name: "cbor/-75000=" + n, ser: "cbor", doc: enc(d1, false), declares: []string{n}, p1claim: &n})
		add(regProbe{name: "json/eat-profile=" + n, ser: "json", doc: enc(d2, true), declares: []string{n}, members: map[string]string{"eat-profile": n}, pair: "d2/" + n})
		// the same name in another legal JSON spelling (escaped slashes, a \u escape)
		if j := enc(d2, true); j != nil && strings.Contains(n, "/") {
			esc := strings.Replace(strings.ReplaceAll(quote(n), "/", `\/`), `\/`, `\u002f`, 1)
			add(regProbe{name: "json/eat-profile=" + n + " (escaped spelling)", ser: "json", doc: jsonEdit(j, "eat-profile", esc, false), declares: []string{n}, members: map[string]string{"eat-profile": n}})
		}
		if j := enc(d2, true); j != nil && strings.ContainsAny(n, "&<>") {
			lit := `"` + n + `"` // written literally, where Go's encoder writes \u0026 etc.
			add(regProbe{name: "json/eat-profile=" + n + " (literal spelling)", ser: "json", doc: jsonEdit(j, "eat-profile", lit, false), declares: []string{n}, members: map[string]string{"eat-profile": n}})
		}
		add(regProbe{name: "json/psa-profile=" + n, ser: "json", doc: enc(d1, true), declares: []string{n}, members: map[string]string{"psa-profile": n}, p1claim: &n})
		// a profile-1 shaped, profile-1 valid body that declares n through the profile-2 member
		{
			dq := *p1
			dq.ProfClaim = nil
			if j := enc(dq, true); j != nil {
				add(regProbe{name: "json/p1 body eat-profile=" + n, ser: "json", doc: jsonEdit(j, "eat-profile", quote(n), false), declares: []string{n}, members: map[string]string{"eat-profile": n}})
			}
		}
		// a member whose NAME is the empty string is just an unknown member, whatever it holds
		if j := enc(d2, true); j != nil {
			add(regProbe{name: "json/eat-profile=" + n + ` +""=PSA_IOT_PROFILE_1`, ser: "json", doc: jsonEdit(j, "", quote(psatoken.Profile1Name), false), declares: []string{n}, members: map[string]string{"eat-profile": n}})
		}
		{
			dq := *p1
			dq.ProfClaim = nil
			if j := enc(dq, true); j != nil {
				add(regProbe{name: `json/no profile member +""=` + n, ser: "json", doc: jsonEdit(j, "", quote(n), false), declares: []string{n}, members: map[string]string{}})
			}
		}
		// a profile-2 shaped claims-set whose certification reference only profile 1's rule accepts (bare EAN-13)
		{
			de := *p2
			de.ProfClaim = sp(n)
			de.CertRef = sp("1234567890123")
			add(regProbe{name: "cbor/265=" + n + " cert EAN-13", ser: "cbor", doc: enc(de, false), declares: []string{n}, c265: &n, pair: "de/" + n})
			add(regProbe{name: "json/eat-profile=" + n + " cert EAN-13", ser: "json", doc: enc(de, true), declares: []string{n}, members: map[string]string{"eat-profile": n}, pair: "de/" + n})
		}
		// a token that is rejected part-way (client id of the wrong type) although it carries every optional claim
		dfull := *p2
		dfull.ProfClaim = sp(n)
		dfull.BootSeed, dfull.CertRef, dfull.VSI = hp(make([]byte, 16)), sp("1234567890123-12345"), sp("leaky")
		if j := enc(dfull, true); j != nil {
			add(regProbe{name: "json/eat-profile=" + n + " client-id of the wrong type", ser: "json", doc: jsonEdit(j, "psa-client-id", `"x"`, false), declares: []string{n}, members: map[string]string{"eat-profile": n}})
		}
		d1full := *p1
		d1full.ProfClaim = sp(n)
		d1full.CertRef, d1full.VSI = sp("1234567890123"), sp("leaky")
		if j := enc(d1full, true); j != nil {
			add(regProbe{name: "json/psa-profile=" + n + " client-id of the wrong type", ser: "json", doc: jsonEdit(j, "psa-client-id", `"x"`, false), declares: []string{n}, members: map[string]string{"psa-profile": n}, p1claim: &n})
		}
		// profile-1 shaped body announcing n as plain text under key 265 / member str-profile
		dn := *p1
		dn.ProfClaim = nil
		if c := enc(dn, false); c != nil {
			if h, err := readHead(c, 0); err == nil && h.Major == 5 && h.Info != 31 {
				nb := append([]byte{}, encodeHead(5, h.Arg+1)...)
				nb = append(nb, c[h.HLen:]...)
				nb = append(nb, 0x19, 0x01, 0x09)
				nb = append(nb, encodeHead(3, uint64(len(n)))...)
				nb = append(nb, n...)
				add(regProbe{name: "cbor/p1 body+265=" + n, ser: "cbor", doc: nb, declares: []string{n}, c265: &n})
			}
		}
		if j := enc(dn, true); j != nil {
			add(regProbe{name: "json/str-profile=" + n, ser: "json", doc: jsonEdit(jsonEdit(j, "psa-profile", "", true), "str-profile", quote(n), false), declares: []string{n},
				members: map[string]string{"str-profile": n}})
		}
		// a value only an extension's own Validate() objects to (negative sim-extra)
		if c := enc(d2, false); c != nil {
			if h, err := readHead(c, 0); err == nil && h.Major == 5 && h.Info != 31 {
				nb := append([]byte{}, encodeHead(5, h.Arg+1)...)
				nb = append(nb, c[h.HLen:]...)
				nb = append(nb, encodeHead(1, 75099)...)
				nb = append(nb, 0x24)
				add(regProbe{name: "cbor/265=" + n + " sim-extra=-5", ser: "cbor", doc: nb, declares: []string{n}, c265: &n})
			}
		}
		if j := enc(d2, true); j != nil {
			add(regProbe{name: "json/eat-profile=" + n + " sim-extra=-5", ser: "json", doc: jsonEdit(j, "sim-extra", "-5", false), declares: []string{n}, members: map[string]string{"eat-profile": n}})
			// (these two kinds have no rule of their own about their extra member, so the documents pair with cbor/265=n)
			add(regProbe{name: "json/la-profile=" + n, ser: "json", doc: jsonEdit(j, "la-profile", quote(n), false), declares: []string{n}, members: map[string]string{"eat-profile": n, "la-profile": n}, pair: "d2/" + n})
			add(regProbe{name: "json/lb-profile=" + n, ser: "json", doc: jsonEdit(j, "lb-profile", quote(n), false), declares: []string{n}, members: map[string]string{"eat-profile": n, "lb-profile": n}, pair: "d2/" + n})
		}
		if j := enc(d1, true); j != nil {
			add(regProbe{name: "json/psa-profile=" + n + " sim-extra=-5", ser: "json", doc: jsonEdit(j, "sim-extra", "-5", false), declares: []string{n}, members: map[string]string{"psa-profile": n}})
		}
		if j := enc(d2, true); j != nil {
			add(regProbe{name: "json/own-profile=" + n, ser: "json", doc: jsonEdit(j, "own-profile", quote(n), false), declares: []string{n},
				members: map[string]string{"eat-profile": n, "own-profile": n}})
			add(regProbe{name: "json/opt-profile=" + n, ser: "json", doc: jsonEdit(j, "opt-profile", quote(n), false), declares: []string{n},
				members: map[string]string{"eat-profile": n, "opt-profile": n}})
		}
		// the same documents WITHOUT the member every built-in profile uses: the kind's own
		// member is then the only thing that says which profile this is
		if j := enc(d2, true); j != nil {
			bare := jsonEdit(j, "eat-profile", "", true)
			for _, m := range []string{"own-profile", "opt-profile", "str-profile", "la-profile", "lb-profile"} {
				add(regProbe{name: "json/only " + m + "=" + n, ser: "json", doc: jsonEdit(bare, m, quote(n), false), declares: []string{n},
					members: map[string]string{m: n}})
			}
		}
	}
	// profile-1 documents that assert "no measurements" and spell the component list as an explicit null / an empty list
	{
		dn := *p1
		dn.ProfClaim = nil
		dn.Sw = nil
		one := uint(1)
		dn.NoMeas = &one
		dn.SwNil = true
		if j := enc(dn, true); j != nil {
			add(regProbe{name: "json/p1 no-measurements, components null", ser: "json", doc: jsonEdit(j, "psa-software-components", "null", false), members: map[string]string{}, edge: true})
			add(regProbe{name: "json/p1 no-measurements, components []", ser: "json", doc: jsonEdit(j, "psa-software-components", "[]", false), members: map[string]string{}, edge: true})
			add(regProbe{name: "json/p1 no-measurements", ser: "json", doc: j, members: map[string]string{}, edge: true})
		}
		if c := enc(dn, false); c != nil {
			if h, err := readHead(c, 0); err == nil && h.Major == 5 && h.Info != 31 {
				for label, val := range [][2]any{{"null", []byte{0xf6}}, {"[]", []byte{0x80}}} {
					_ = label
					nb := append([]byte{}, encodeHead(5, h.Arg+1)...)
					nb = append(nb, c[h.HLen:]...)
					nb = append(nb, 0x3a, 0x00, 0x01, 0x24, 0xfd) // -75006
					nb = append(nb, val[1].([]byte)...)
					add(regProbe{name: "cbor/p1 no-measurements, components " + val[0].(string), ser: "cbor", doc: nb, edge: true})
				}
			}
		}
	}
	// profile-2 documents whose component list is an explicit null (decoding leaves no container behind)
	{
		dn := *p2
		dn.ProfClaim = sp(psatoken.Profile2Name)
		if j := enc(dn, true); j != nil {
			add(regProbe{name: "json/p2 components null", ser: "json", doc: jsonEdit(j, "psa-software-components", "null", false), members: map[string]string{"eat-profile": psatoken.Profile2Name}, declares: []string{psatoken.Profile2Name}, edge: true})
		}
		dn.Sw = nil
		dn.SwNil = true
		if c := enc(dn, false); c != nil {
			if h, err := readHead(c, 0); err == nil && h.Major == 5 && h.Info != 31 {
				nb := append([]byte{}, encodeHead(5, h.Arg+1)...)
				nb = append(nb, c[h.HLen:]...)
				nb = append(nb, 0x19, 0x09, 0x5f, 0xf6) // 2399: null
				p2n := psatoken.Profile2Name
				add(regProbe{name: "cbor/p2 components null", ser: "cbor", doc: nb, declares: []string{p2n}, c265: &p2n, edge: true})
			}
		}
	}
	// key 265 present but not a text string, on an otherwise profile-1 shaped claims-set
	{
		dn := *p1
		dn.ProfClaim = nil
		if c := enc(dn, false); c != nil {
			if h, err := readHead(c, 0); err == nil && h.Major == 5 && h.Info != 31 {
				for label, val := range map[string][]byte{"bstr": {0x43, 1, 2, 3}, "int": {0x05}, "oid(tag 111)": {0xd8, 0x6f, 0x43, 0x2b, 0x06, 0x01}, "array": {0x81, 0x61, 'x'}} {
					nb := append([]byte{}, encodeHead(5, h.Arg+1)...)
					nb = append(nb, c[h.HLen:]...)
					nb = append(nb, 0x19, 0x01, 0x09)
					nb = append(nb, val...)
					add(regProbe{name: "cbor/p1 body+265=<" + label + ">", ser: "cbor", doc: nb, c265Odd: true})
				}
			}
		}
	}
	// the profile-1 profile claim present but empty
	{
		empty := ""
		de := *p1
		de.ProfClaim = sp("")
		add(regProbe{name: `cbor/-75000=""`, ser: "cbor", doc: enc(de, false), p1claim: &empty})
		add(regProbe{name: `json/psa-profile=""`, ser: "json", doc: enc(de, true), members: map[string]string{"psa-profile": ""}, p1claim: &empty})
	}
	// no profile at all
	d1 := *p1
	d1.ProfClaim = nil
	add(regProbe{name: "cbor/none(p1 body)", ser: "cbor", doc: enc(d1, false)})
	if j := enc(d1, true); j != nil {
		add(regProbe{name: "json/none(p1 body)", ser: "json", doc: jsonEdit(j, "psa-profile", "", true), members: map[string]string{}})
		add(regProbe{name: "json/psa-profile=null", ser: "json", doc: jsonEdit(j, "psa-profile", "null", false), members: map[string]string{}})
		add(regProbe{name: "json/p1 body+eat-profile=5", ser: "json", doc: jsonEdit(jsonEdit(j, "psa-profile", "", true), "eat-profile", "5", false),
			members: map[string]string{"eat-profile": "\x00nonstring"}})
		add(regProbe{name: "json/p1 body+eat-profile=[]", ser: "json", doc: jsonEdit(jsonEdit(j, "psa-profile", "", true), "eat-profile", "[]", false),
			members: map[string]string{"eat-profile": "\x00nonstring"}})
	}
	d2 := *p2
	d2.ProfClaim = nil
	if c := enc(d2, false); c != nil {
		// key 265 null
		add(regProbe{name: "cbor/265=null", ser: "cbor", doc: c, weak: true})
		// key 265 absent from a profile-2 body: drop the first pair of the root map
		if nb, ok := applyTreeFault(c, 0, len(treeSubst)+1); ok {
			add(regProbe{name: "cbor/none(p2 body)", ser: "cbor", doc: nb})
		}
	}
	if j := enc(d2, true); j != nil {
		add(regProbe{name: "json/none(p2 body)", ser: "json", doc: jsonEdit(j, "eat-profile", "", true), members: map[string]string{}})
		add(regProbe{name: "json/eat-profile=null", ser: "json", doc: j, members: map[string]string{}})
	}
	// both profiles' members / keys
	d1 = *p1
	d1.ProfClaim = sp(psatoken.Profile1Name)
	if j := enc(d1, true); j != nil {
		add(regProbe{name: "json/both", ser: "json", doc: jsonEdit(j, "eat-profile", quote(psatoken.Profile2Name), false),
			declares: []string{psatoken.Profile1Name, psatoken.Profile2Name}, weak: true,
			members: map[string]string{"psa-profile": psatoken.Profile1Name, "eat-profile": psatoken.Profile2Name}})
	}
	d2 = *p2
	d2.ProfClaim = sp(psatoken.Profile2Name)
	if c := enc(d2, false); c != nil {
		// append -75000: "PSA_IOT_PROFILE_1" to the profile-2 map
		h, err := readHead(c, 0)
		if err == nil && h.Major == 5 && h.Info != 31 {
			nb := append([]byte{}, encodeHead(5, h.Arg+1)...)
			nb = append(nb, c[h.HLen:]...)
			nb = append(nb, encodeHead(1, 74999)...)
			nb = append(nb, encodeHead(3, uint64(len(psatoken.Profile1Name)))...)
			nb = append(nb, psatoken.Profile1Name...)
			add(regProbe{name: "cbor/both", ser: "cbor", doc: nb, declares: []string{psatoken.Profile1Name, psatoken.Profile2Name}, weak: true})
		}
	}
	// every CBOR probe also travels inside a COSE_Sign1 envelope (dispatch does not
	// look at the signature) and is then decoded by ONE Evidence reused for the whole run
	n := len(out)
	for i := 0; i < n; i++ {
		if out[i].ser != "cbor" {
			continue
		}
		p := out[i]
		p.payload = p.doc
		p.doc = assembleSign1([]byte{0xa1, 0x01, 0x26}, nil, p.payload, make([]byte, 64))
		p.ser = "cose"
		p.name = "cose(" + p.name + ")"
		out = append(out, p)
	}
	return out
}

// regReusedEv is the verifier-side Evidence that decodes every COSE probe of a run.
var regReusedEv *psatoken.Evidence

// ---- outcome of one dispatch

type dispOutcome struct {
	ok    bool
	typ   string
	obs   string
	valid string
}

func (o dispOutcome) String() string {
	if !o.ok {
		return "err"
	}
	return "ok|" + o.typ + "|" + o.obs + "|" + o.valid
}

func dispatch(p *regProbe) (out dispOutcome) {
	defer func() {
		if r := recover(); r != nil {
			out = dispOutcome{ok: true, typ: fmt.Sprintf("PANIC(%v)", r)}
		}
	}()
	var c psatoken.IClaims
	var err error
	buf := append([]byte{}, p.doc...)
	switch p.ser {
	case "cbor":
		c, err = psatoken.DecodeClaimsFromCBOR(buf)
	case "cose":
		err = regReusedEv.UnmarshalCOSE(buf)
		c = regReusedEv.Claims
	default:
		c, err = psatoken.DecodeClaimsFromJSON(buf)
	}
	if err != nil || c == nil {
		return dispOutcome{}
	}
	return dispOutcome{ok: true, typ: fmt.Sprintf("%T", c), obs: getterObs(c), valid: safely(func() string { return ec(c.Validate()) })}
}

// directDecodeOK: does a fresh instance of the kind, obtained from its profile
// object and not through the register, decode the probe's document?
func directDecodeOK(kind, name string, p *regProbe) (ok bool) {
	defer func() {
		if r := recover(); r != nil {
			ok = false
		}
	}()
	prof := profileOfKind(kind, name)
	if prof == nil {
		return false
	}
	c := prof.GetClaims()
	u, is := c.(unmarshalBoth)
	if !is {
		return false
	}
	buf := append([]byte{}, p.doc...)
	if p.ser == "cbor" {
		return u.UnmarshalCBOR(buf) == nil
	}
	return u.UnmarshalJSON(buf) == nil
}

// baseVerdict: the verdict of the built-in profile a derived claims type embeds,
// on a copy of the embedded claims with the profile claim set to the built-in's
// own. ok=false when c does not embed a built-in claims type.
func baseVerdict(c psatoken.IClaims) (verdict string, ok bool) {
	defer func() {
		if r := recover(); r != nil {
			verdict, ok = "", false
		}
	}()
	v := reflect.ValueOf(c)
	if v.Kind() != reflect.Ptr || v.IsNil() || v.Elem().Kind() != reflect.Struct {
		return "", false
	}
	if f := v.Elem().FieldByName("P2Claims"); f.IsValid() && f.CanInterface() {
		if b, is := f.Interface().(psatoken.P2Claims); is {
			b.CanonicalProfile = psatoken.Profile2Name
			b.Profile = eatProfileOf(psatoken.Profile2Name)
			return errText(b.Validate()), true
		}
	}
	if f := v.Elem().FieldByName("P1Claims"); f.IsValid() && f.CanInterface() {
		if b, is := f.Interface().(psatoken.P1Claims); is {
			b.CanonicalProfile = psatoken.Profile1Name
			b.Profile = nil
			return errText(b.Validate()), true
		}
	}
	return "", false
}

func dispatchValidating(p *regProbe) (ok bool, c psatoken.IClaims) {
	defer func() {
		if r := recover(); r != nil {
			ok, c = false, nil
		}
	}()
	var err error
	buf := append([]byte{}, p.doc...)
	switch p.ser {
	case "cbor":
		c, err = psatoken.DecodeAndValidateClaimsFromCBOR(buf)
	case "cose":
		var e *psatoken.Evidence
		e, err = psatoken.DecodeAndValidateEvidenceFromCOSE(buf)
		if err == nil && e != nil {
			c = e.Claims
		}
	default:
		c, err = psatoken.DecodeAndValidateClaimsFromJSON(buf)
	}
	return err == nil, c
}

// permFrom derives a permutation of [0,n) from a recorded list.
func permFrom(l []int, n, variant int) []int {
	idx := make([]int, n)
	keys := make([]int, n)
	for i := range idx {
		idx[i] = i
		if len(l) > 0 {
			keys[i] = l[(i+variant)%len(l)]*131 + (i*7+variant*13)%101
		} else {
			keys[i] = i
		}
	}
	sort.SliceStable(idx, func(a, b int) bool { return keys[idx[a]] < keys[idx[b]] })
	return idx
}

func withOrder(perm func(n int) []int, f func()) {
	simrt.OrderFn = func(site, n int) []int { return perm(n) }
	defer func() { simrt.OrderFn = nil }()
	f()
}

type unmarshalBoth interface {
	UnmarshalCBOR([]byte) error
	UnmarshalJSON([]byte) error
}

func mutateInstance(c psatoken.IClaims, code int, salt int) {
	defer func() { _ = recover() }()
	rb := func(n int) []byte { return NewRng(uint64(salt*31 + code)).Bytes(n) }
	switch code % nMutations {
	case 0:
		_ = c.SetClientID(int32(7 + salt))
	case 1:
		_ = c.SetSecurityLifeCycle(0x2000 + uint16(salt%200))
	case 2:
		_ = c.SetImplID(rb(32))
	case 3:
		_ = c.SetBootSeed(rb(32))
	case 4:
		_ = c.SetCertificationReference("4006381333931-00042")
	case 5:
		_ = c.SetSoftwareComponents(swToIface([]SwDesc{{MVal: hp(rb(32)), Signer: hp(rb(48)), Version: sp("9.9.9")}, {MVal: hp(rb(64)), Signer: hp(rb(32))}}))
	case 6:
		_ = c.SetSoftwareComponents(nil)
	case 7:
		_ = c.SetSoftwareComponents([]psatoken.ISwComponent{})
	case 8:
		_ = c.SetNonce(rb(48))
	case 9:
		b := rb(33)
		b[0] = 1
		_ = c.SetInstID(b)
	case 10:
		_ = c.SetVSI(fmt.Sprintf("mutated-%d", salt))
	case 11:
		if scs, err := c.GetSoftwareComponents(); err == nil && len(scs) > 0 {
			_ = scs[0].SetVersion(fmt.Sprintf("mut-%d", salt))
			_ = scs[0].SetMeasurementDesc("mutated")
		}
	case 12:
		if scs, err := c.GetSoftwareComponents(); err == nil && len(scs) > 0 {
			_ = scs[len(scs)-1].SetMeasurementValue(rb(64))
		}
	case 13:
		// write through every byte slice a getter hands out
		if b, err := c.GetImplID(); err == nil && len(b) > 0 {
			b[0] ^= 0xff
		}
		if b, err := c.GetNonce(); err == nil && len(b) > 0 {
			b[len(b)-1] ^= 0xff
		}
		if b, err := c.GetInstID(); err == nil && len(b) > 1 {
			b[1] ^= 0xff
		}
		if b, err := c.GetBootSeed(); err == nil && len(b) > 0 {
			b[0] ^= 0xff
		}
		if scs, err := c.GetSoftwareComponents(); err == nil {
			for _, sc := range scs {
				if b, err := sc.GetMeasurementValue(); err == nil && len(b) > 0 {
					b[0] ^= 0xff
				}
			}
		}
	case 14:
		_ = c.SetSoftwareComponents(swToIface([]SwDesc{{MVal: hp(rb(32)), Signer: hp(rb(48))}, {MVal: hp(rb(5))}}))
	case 15:
		// the caller edits the profile object of ITS instance in place (exported field)
		editP2 := func(p *psatoken.P2Claims) {
			if p.Profile != nil {
				_ = p.Profile.Set(fmt.Sprintf("http://edited.example/%d", salt))
			}
		}
		editP1 := func(p *psatoken.P1Claims) {
			if p.Profile != nil {
				*p.Profile = fmt.Sprintf("EDITED_%d", salt)
			}
		}
		switch x := c.(type) {
		case *psatoken.P2Claims:
			editP2(x)
		case *XP2Claims:
			editP2(&x.P2Claims)
		case *XOwnClaims:
			editP2(&x.P2Claims)
		case *XOptClaims:
			editP2(&x.P2Claims)
		case *XTwoClaims:
			editP2(&x.P2Claims)
		case *psatoken.P1Claims:
			editP1(x)
		case *XP1Claims:
			editP1(&x.P1Claims)
		case *XStrClaims:
			if x.EatProfile != nil {
				*x.EatProfile = "EDITED"
			}
		}
	}
}

func (regWorld) Exec(prop string, t *Trace) *Result {
	res := newResult()
	var cfg RegCfg
	if err := json.Unmarshal(t.Cfg, &cfg); err != nil {
		res.Fatal = "bad cfg: " + err.Error()
		return res
	}
	if pristineReg == nil {
		res.Fatal = "no pristine register snapshot"
		return res
	}
	psatoken.VerifRegistryRestore(pristineReg)
	regReusedEv = &psatoken.Evidence{}
	simProfilesRegistered = false
	simrt.OrderFn = nil
	disarmCodec()
	c16 := prop == "C16"
	c07 := prop == "C07"

	// a leading registration (D=7) is made before the harness itself looks anything up
	var firstReg struct {
		done bool
		err  error
	}
	if len(t.Ops) > 0 && t.Ops[0].K == "register" && t.Ops[0].D == 7 {
		if prof := profileOfKind(t.Ops[0].T, t.Ops[0].S); prof != nil && t.Ops[0].S != "" && !(kindNeedsURI[t.Ops[0].T] && !isURIName(t.Ops[0].S)) {
			func() {
				defer func() {
					if r := recover(); r != nil {
						firstReg.err = fmt.Errorf("panic: %v", r)
					}
				}()
				firstReg.err = psatoken.RegisterProfile(prof)
			}()
			firstReg.done = true
			res.Probes["registration_as_first_use_of_the_library"]++
		}
	}
	model := map[string]string{psatoken.Profile1Name: "p1", psatoken.Profile2Name: "p2"}
	probes := buildRegProbes(cfg.Names)
	if len(probes) < 10 {
		res.Fatal = "probe set could not be built"
		return res
	}
	allNames := append(append([]string{}, cfg.Names...), psatoken.Profile1Name, psatoken.Profile2Name, unknownName)
	allNames = append(allNames, nameVariants(allNames[:len(allNames)-1])...)

	snapshot := func() []string {
		out := make([]string, 0, len(probes)+len(allNames))
		for i := range probes {
			out = append(out, dispatch(&probes[i]).String())
		}
		for _, n := range allNames {
			n := n
			out = append(out, safely(func() string {
				c, err := psatoken.NewClaims(n)
				if err != nil {
					return "err"
				}
				return fmt.Sprintf("ok|%T|%s", c, getterObs(c))
			}))
		}
		return out
	}
	// Does lookup i declare the profile being registered? Besides naming it, a
	// JSON document carrying the profile MEMBER NAME that the new profile
	// introduces starts to be a document that declares a profile at all.
	declares := func(i int, name string, kind string) bool {
		if i >= len(probes) {
			return allNames[i-len(probes)] == name
		}
		for _, d := range probes[i].declares {
			if d == name {
				return true
			}
		}
		if _, ok := probes[i].members[kindTag[kind]]; ok && probes[i].ser == "json" {
			return true
		}
		return false
	}
	label := func(i int) string {
		if i >= len(probes) {
			return "NewClaims(" + allNames[i-len(probes)] + ")"
		}
		return probes[i].name
	}

	// reference dispatch (C07): which registered kind must handle the document
	refKind := func(p *regProbe) (kind string, strong bool, wantErr bool) {
		if p.weak {
			return "", false, false
		}
		if p.ser == "cbor" || p.ser == "cose" {
			if p.c265Odd {
				return "", true, true // a profile value that cannot be a registered name
			}
			if p.c265 == nil {
				return "p1", true, false
			}
			if k, ok := model[*p.c265]; ok {
				return k, true, false
			}
			return "", true, true
		}
		names := map[string]bool{}
		nonString := false
		// a member is a profile declaration only if some registered profile uses
		// that member name; otherwise it is just an unknown extra member
		known := map[string]bool{}
		for _, k := range model {
			known[kindTag[k]] = true
		}
		for tag, v := range p.members {
			if !known[tag] {
				continue
			}
			if v == "\x00nonstring" {
				nonString = true
			} else {
				names[v] = true
			}
		}
		if nonString {
			if len(names) == 0 {
				return "", true, true // a profile value that cannot be a registered name
			}
			return "", false, false
		}
		if len(names) == 0 {
			return "p1", true, false
		}
		if len(names) > 1 {
			return "", false, false
		}
		for n := range names {
			k, ok := model[n]
			if !ok {
				return "", true, true
			}
			if p.members[kindTag[k]] == n {
				return k, true, false
			}
		}
		return "", false, false
	}
	nameOfKind := func(p *regProbe, kind string) string {
		if p.ser == "cbor" || p.ser == "cose" {
			if p.c265 != nil {
				return *p.c265
			}
			return psatoken.Profile1Name
		}
		if v, ok := p.members[kindTag[kind]]; ok && v != "\x00nonstring" {
			if k, reg := model[v]; reg && k == kind {
				return v
			}
		}
		return psatoken.Profile1Name
	}

	checkDispatch := func(step int, p *regProbe, got dispOutcome) {
		kind, strong, wantErr := refKind(p)
		res.Evals++
		if !strong {
			res.Probes["dispatch_weak"]++
			if got.ok {
				allowed := map[string]bool{kindType["p1"]: true}
				for _, d := range p.declares {
					if k, ok := model[d]; ok {
						allowed[kindType[k]] = true
					}
				}
				if !allowed[got.typ] {
					res.violate("C07", "dispatched-outside-declared-profiles", "", step, "%s was decoded as %s, which is neither a profile it declares nor the default", p.name, got.typ)
				}
			}
			return
		}
		if wantErr {
			res.Probes["dispatch_expect_error"]++
			if got.ok {
				res.violate("C07", "unregistered-profile-accepted", "", step, "%s declares a profile value that is not registered, yet decoding returned %s", p.name, got.typ)
			}
			return
		}
		res.Probes["dispatch_expect_"+kind]++
		name := nameOfKind(p, kind)
		// the same bytes straight into a fresh instance of the declared profile
		var direct psatoken.IClaims
		directOK := false
		directValid := ""
		func() {
			defer func() { _ = recover() }()
			c, err := psatoken.NewClaims(name)
			if err != nil {
				return
			}
			u, ok := c.(unmarshalBoth)
			if !ok {
				return
			}
			buf := append([]byte{}, p.doc...)
			switch p.ser {
			case "cbor":
				err = u.UnmarshalCBOR(buf)
			case "cose":
				err = u.UnmarshalCBOR(append([]byte{}, p.payload...))
			default:
				err = u.UnmarshalJSON(buf)
			}
			if err != nil {
				return
			}
			direct, directOK = c, true
			directValid = safely(func() string { return ec(c.Validate()) })
		}()
		if got.ok != directOK {
			res.violate("C07", "dispatch-differs-from-declared-profile", "", step, "%s: dispatching decode ok=%v, decoding the same bytes straight into NewClaims(%q) ok=%v", p.name, got.ok, name, directOK)
			return
		}
		if !got.ok {
			return
		}
		if got.typ != kindType[kind] {
			res.violate("C07", "wrong-implementation-selected", "", step, "%s declares %q (registered as %s) but was decoded as %s", p.name, name, kindType[kind], got.typ)
			return
		}
		if a := getterObs(direct); a != got.obs || directValid != got.valid {
			res.violate("C07", "judged-by-other-rules", "", step, "%s: dispatching decode and direct decode into the declared profile disagree:\n dispatch: %s validate=%s\n direct:   %s validate=%s", p.name, got.obs, got.valid, a, directValid)
		}
		if directValid == "ok" {
			// a derived profile inherits its base profile's rules for the claims it inherits: what it
			// accepts, the base profile accepts once the profile claim is set aside
			if bv, ok := baseVerdict(direct); ok {
				res.Probes["inherited_rules_compared"]++
				if bv != "ok" {
					res.violate("C07", "derived-profile-accepts-what-base-rejects", "", step, "%s: accepted under %q (%s), but the very same claims fail the base profile's validation: %s", p.name, name, kindType[kind], bv)
				}
			}
		}
		vok, vc := dispatchValidating(p)
		if vok != (got.valid == "ok") {
			res.violate("C07", "validated-under-other-rules", "", step, "%s: decode-and-validate accepted=%v although the declared profile's own validation says %s", p.name, vok, got.valid)
		}
		if vok && vc != nil && p.p1claim != nil {
			if pn, err := vc.GetProfile(); err != nil || pn != *p.p1claim {
				res.violate("C07", "accepted-token-reports-other-profile", "", step, "%s carries the profile claim %q but was accepted and reports %q (err=%v)", p.name, *p.p1claim, pn, err)
			}
		}
		// decoding must overwrite, not merge with, what the receiver held: a fresh NewClaims
		// instance and a zero-value instance of the same type must end up alike
		if zero := zeroInstance(kind, name); zero != nil && direct != nil {
			func() {
				defer func() { _ = recover() }()
				u := zero.(unmarshalBoth)
				var zerr error
				switch p.ser {
				case "cbor":
					zerr = u.UnmarshalCBOR(append([]byte{}, p.doc...))
				case "cose":
					zerr = u.UnmarshalCBOR(append([]byte{}, p.payload...))
				default:
					zerr = u.UnmarshalJSON(append([]byte{}, p.doc...))
				}
				if zerr == nil {
					res.Evals++
					if a, b := getterObs(direct), getterObs(zero); a != b {
						res.violate("C07", "decode-merges-with-receiver-state", "", step, "%s decoded into a fresh NewClaims(%q) instance and into a zero-value instance of the same type differ (the token must be judged by what IT says):\n NewClaims: %s\n zero:      %s", p.name, name, a, b)
					}
				}
			}()
		}
		if vok && vc != nil {
			res.Probes["accepted_token_profile_checked"]++
			if pn, err := vc.GetProfile(); err != nil || pn != name {
				res.violate("C07", "accepted-token-reports-other-profile", "", step, "%s was accepted but reports profile %q (err=%v), declared %q", p.name, pn, err, name)
			}
		}
	}

	okReg, failReg, multiOrder := 0, 0, 0
	shape := ""
	for i, op := range t.Ops {
		res.OpsRun++
		res.Steps++
		switch op.K {
		case "register", "reregister":
			name, kind := op.S, op.T
			if op.K == "reregister" {
				// pick a name that is registered right now
				var names []string
				for n := range model {
					names = append(names, n)
				}
				sort.Strings(names)
				name = names[op.A%len(names)]
			}
			if kindNeedsURI[kind] && !isURIName(name) {
				// such a profile cannot even build its claims; not a registration the property speaks about
				break
			}
			prof := profileOfKind(kind, name)
			if prof == nil || name == "" {
				break
			}
			before := snapshot()
			var err error
			if i == 0 && firstReg.done {
				// already made, before anything else (its "before" is not observable without a lookup)
				err = firstReg.err
			} else {
				func() {
					defer func() {
						if r := recover(); r != nil {
							err = fmt.Errorf("panic: %v", r)
						}
					}()
					err = psatoken.RegisterProfile(prof)
				}()
			}
			after := snapshot()
			_, exists := model[name]
			wantOK := !exists && goodKind(kind)
			res.Evals++
			res.logf("%d register %q kind=%s err=%s", i, name, kind, okOrErr(err))
			shape += "R" + kind + okOrErr(err)
			if c16 {
				if wantOK && err != nil {
					res.violate("C16", "new-profile-rejected", "", i, "registering a new %s profile under the unused name %q failed: %v", kind, name, err)
				}
				if !wantOK && err == nil {
					why := "the name is already registered"
					if !exists {
						why = "its claims type has no identifiable profile field"
					}
					res.violate("C16", "bad-registration-accepted", "", i, "RegisterProfile(%q, kind %s) succeeded although %s", name, kind, why)
				}
			}
			if err != nil {
				failReg++
				if c16 {
					for j := range before {
						if before[j] != after[j] {
							res.violate("C16", "failed-registration-changed-lookups", "", i, "RegisterProfile(%q, kind %s) failed (%v) but %s changed:\n before: %s\n after:  %s", name, kind, err, label(j), before[j], after[j])
							break
						}
					}
				}
			} else {
				okReg++
				if c16 {
					for j := range before {
						if before[j] != after[j] && !declares(j, name, kind) {
							res.violate("C16", "registration-changed-unrelated-lookup", "", i, "registering %q changed the outcome of %s, which does not declare it:\n before: %s\n after:  %s", name, label(j), before[j], after[j])
							break
						}
					}
				}
				if !exists {
					if goodKind(kind) {
						model[name] = kind
						if c16 {
							// ... and the lookups that DO declare it are now answered by it
							for j := range probes {
								k, strong, wantErr := refKind(&probes[j])
								if !strong || wantErr || k != kind || nameOfKind(&probes[j], kind) != name {
									continue
								}
								// only documents the kind's own decoder takes (no register involved) must now decode
								if probes[j].ser == "cose" || !directDecodeOK(kind, name, &probes[j]) {
									continue
								}
								res.Probes["registration_effect_checked"]++
								if !strings.HasPrefix(after[j], "ok|"+kindType[kind]+"|") {
									res.violate("C16", "registration-without-effect", "", i, "after registering %q (kind %s), %s - which declares it - is still answered with: %s", name, kind, label(j), string(head([]byte(after[j]), 200)))
									break
								}
							}
						}
					} else {
						// the library accepted a profile the model says it must refuse: keep dispatching
						// consistent with what a correct library would have (nothing registered)
						res.Probes["model_diverged"]++
					}
				}
			}
		case "newclaims":
			var c1, c2 psatoken.IClaims
			var e1, e2 error
			func() {
				defer func() {
					if r := recover(); r != nil {
						e1 = fmt.Errorf("panic: %v", r)
					}
				}()
				c1, e1 = psatoken.NewClaims(op.S)
				c2, e2 = psatoken.NewClaims(op.S)
			}()
			kind, exists := model[op.S]
			if op.S == "" {
				kind, exists = "p1", true // the default entry: profile 1
			}
			res.Evals++
			shape += "N"
			if exists != (e1 == nil) || exists != (e2 == nil) {
				if c16 || c07 {
					res.violate(prop, "newclaims-disagrees-with-register", "", i, "NewClaims(%q): err=%v, but registered=%v", op.S, e1, exists)
				}
				break
			}
			if !exists {
				break
			}
			if typ := fmt.Sprintf("%T", c1); typ != kindType[kind] {
				res.violate(prop, "newclaims-wrong-type", "", i, "NewClaims(%q) returned %s, registered kind is %s", op.S, typ, kindType[kind])
			}
			if c07 {
				if pn, err := c1.GetProfile(); op.S != "" && (err != nil || pn != op.S) {
					res.violate("C07", "newclaims-reports-other-profile", "", i, "NewClaims(%q).GetProfile() = %q, %v", op.S, pn, err)
				}
			}
			if c16 {
				o2 := fullObs(c2)
				for code := 0; code < nMutations; code++ {
					mutateInstance(c1, code, i)
				}
				if o := fullObs(c2); o != o2 {
					res.violate("C16", "instances-share-state", "", i, "mutating one NewClaims(%q) result changed another:\n before: %s\n after:  %s", op.S, o2, o)
				}
				res.Probes["independence_checked"]++
			}
		case "dispatch":
			p := &probes[op.A%len(probes)]
			// whatever the document declares: decoding it into a fresh NewClaims instance of a built-in
			// profile and into a zero-value instance of the same type must give the same claims
			// (a decode overwrites what the receiver held, it does not merge with it)
			if c07 {
				targets := [][2]string{{"p1", psatoken.Profile1Name}, {"p2", psatoken.Profile2Name}}
				{
					// ... and of every registered extension kind whose zero value can be written down
					var names []string
					for n, k := range model {
						if k == "xp2" || k == "xp1" || k == "xp1n" {
							names = append(names, n)
						}
					}
					sort.Strings(names)
					for _, n := range names {
						targets = append(targets, [2]string{model[n], n})
					}
				}
				for _, tg := range targets {
					bk, bn := tg[0], tg[1]
					func() {
						defer func() { _ = recover() }()
						fresh, err := psatoken.NewClaims(bn)
						if err != nil {
							return
						}
						zero := zeroInstance(bk, bn)
						dec := func(c psatoken.IClaims) error {
							u := c.(unmarshalBoth)
							switch p.ser {
							case "cbor":
								return u.UnmarshalCBOR(append([]byte{}, p.doc...))
							case "cose":
								return u.UnmarshalCBOR(append([]byte{}, p.payload...))
							}
							return u.UnmarshalJSON(append([]byte{}, p.doc...))
						}
						e1, e2 := dec(fresh), dec(zero)
						res.Evals++
						builtin := bk == "p1" || bk == "p2"
						if (e1 == nil) != (e2 == nil) && (builtin || e1 == nil) {
							// (for an extension kind only the direction "what the factory had put into the instance
							// makes a document decodable" counts as merging: a pre-set pointer field can also make
							// the CBOR library stricter about a null, which is a codec quirk, not state leaking in)
							res.violate("C07", "decode-merges-with-receiver-state", "", i, "%s: decoding into NewClaims(%q) gives err=%v, into a zero-value %s instance err=%v", p.name, bn, e1, bk, e2)
						} else if e1 == nil {
							if a, b := getterObs(fresh), getterObs(zero); a != b {
								res.violate("C07", "decode-merges-with-receiver-state", "", i, "%s decoded into NewClaims(%q) and into a zero-value %s instance differ:\n NewClaims: %s\n zero:      %s", p.name, bn, bk, a, b)
							}
						}
					}()
				}
			}
			base := dispatch(p)
			shape += "D" + p.ser
			checkDispatch(i, p, base)
			if c07 && p.ser == "json" {
				// the deprecated names are the same functions under older names
				old1 := safely(func() string {
					c, err := psatoken.DecodeUnvalidatedJSONClaims(append([]byte{}, p.doc...)) //nolint:staticcheck
					if err != nil || c == nil {
						return "err"
					}
					return fmt.Sprintf("ok|%T|%s", c, getterObs(c))
				})
				want1 := "err"
				if base.ok {
					want1 = "ok|" + base.typ + "|" + base.obs
				}
				vok, vc := dispatchValidating(p)
				want2 := "err"
				if vok && vc != nil {
					want2 = fmt.Sprintf("ok|%T|%s", vc, getterObs(vc))
				}
				old2 := safely(func() string {
					c, err := psatoken.DecodeJSONClaims(append([]byte{}, p.doc...)) //nolint:staticcheck
					if err != nil || c == nil {
						return "err"
					}
					return fmt.Sprintf("ok|%T|%s", c, getterObs(c))
				})
				res.Evals++
				if old1 != want1 {
					res.violate("C07", "deprecated-name-differs", "DecodeUnvalidatedJSONClaims", i, "%s: DecodeUnvalidatedJSONClaims answers %s, DecodeClaimsFromJSON %s", p.name, head([]byte(old1), 160), head([]byte(want1), 160))
				}
				if old2 != want2 {
					res.violate("C07", "deprecated-name-differs", "DecodeJSONClaims", i, "%s: DecodeJSONClaims answers %s, DecodeAndValidateClaimsFromJSON %s", p.name, head([]byte(old2), 160), head([]byte(want2), 160))
				}
			}
			if c07 && p.pair != "" && base.ok {
				// "in CBOR and in JSON alike": the same claims-set in the other serialisation, when it is
				// handed to the same implementation, gets the same verdict
				for k := range probes {
					q := &probes[k]
					if q == p || q.pair != p.pair {
						continue
					}
					other := dispatch(q)
					res.Evals++
					if !other.ok {
						// the same claims-set, the same declared profile, the same implementation expected by
						// the reference dispatch: it cannot decode in one spelling and not in the other
						k1, s1, w1 := refKind(p)
						k2, s2, w2 := refKind(q)
						if s1 && s2 && !w1 && !w2 && k1 == k2 && q.ser == p.ser {
							res.violate("C07", "decodes-in-one-spelling-only", "", i, "%s decodes (as %s) but %s, the same claims-set declaring the same profile, does not", p.name, base.typ, q.name)
						}
					}
					if other.ok && other.typ == base.typ {
						res.Probes["serialisations_compared"]++
						if other.valid != base.valid {
							res.violate("C07", "verdict-differs-between-serialisations", "", i, "%s and %s carry the same claims-set and are both decoded as %s, but validation says %s for one and %s for the other", p.name, q.name, base.typ, base.valid, other.valid)
						}
					}
				}
			}
			if p.ser != "json" {
				break
			}
			// the same dispatch under other registry iteration orders
			orders := op.D
			if orders < 2 {
				orders = 2
			}
			seen := map[string]bool{}
			for v := 0; v < orders; v++ {
				v := v
				var got dispOutcome
				ranges0 := simrt.MapRanges
				withOrder(func(n int) []int {
					switch v {
					case 0:
						p := make([]int, n)
						for k := range p {
							p[k] = n - 1 - k
						}
						return p
					default:
						return permFrom(op.L, n, v)
					}
				}, func() { got = dispatch(p) })
				if simrt.MapRanges > ranges0 {
					res.Probes["map_ranges_under_chosen_order"]++
				}
				res.Faults["map.order"]++
				seen[got.String()] = true
				res.Evals++
				if got.String() != base.String() {
					res.violate("C16", "json-dispatch-depends-on-iteration-order", "", i, "%s: outcome under the canonical registry order is %s, under another order %s", p.name, base, got)
					break
				}
				if c07 {
					checkDispatch(i, p, got)
				}
			}
			if len(model) > 2 {
				multiOrder++
			}
		case "indep":
			// two instances of S (or decoded twice from the same buffer), mutate the first, watch the second
			var a, b psatoken.IClaims
			func() {
				defer func() { _ = recover() }()
				switch op.D % 4 {
				case 0:
					a, _ = psatoken.NewClaims(op.S)
					b, _ = psatoken.NewClaims(op.S)
				case 1:
					a, _ = psatoken.NewClaims(op.S)
					b, _ = psatoken.NewClaims(op.T)
				default:
					p := &probes[op.A%len(probes)]
					if op.D%4 == 3 {
						// favour the documents in unusual spellings
						var edges []int
						for k := range probes {
							if probes[k].edge {
								edges = append(edges, k)
							}
						}
						if len(edges) > 0 {
							p = &probes[edges[op.A%len(edges)]]
						}
					}
					buf := append([]byte{}, p.doc...) // one caller buffer, decoded twice
					if p.ser == "cose" && op.A%2 == 0 {
						// the whole envelope, twice, through the Evidence-level decoder
						e1, _ := psatoken.DecodeEvidenceFromCOSE(buf)
						e2, _ := psatoken.DecodeEvidenceFromCOSE(buf)
						if e1 != nil && e2 != nil {
							a, b = e1.Claims, e2.Claims
							if e1 == e2 {
								res.violate("C16", "instances-share-state", "same-evidence", i, "two DecodeEvidenceFromCOSE calls on the same bytes returned the same *Evidence")
							}
						}
						break
					}
					if p.ser == "cose" {
						buf = append([]byte{}, p.payload...)
					}
					if p.ser == "cbor" || p.ser == "cose" {
						a, _ = psatoken.DecodeClaimsFromCBOR(buf)
						b, _ = psatoken.DecodeClaimsFromCBOR(buf)
					} else {
						a, _ = psatoken.DecodeClaimsFromJSON(buf)
						b, _ = psatoken.DecodeClaimsFromJSON(buf)
					}
				}
			}()
			if a == nil || b == nil {
				break
			}
			pre := op.B
			if pre > len(op.L) {
				pre = len(op.L)
			}
			for _, code := range op.L[:pre] {
				mutateInstance(a, code, i)
				mutateInstance(b, code, i+1000)
			}
			ob := fullObs(b)
			for _, code := range op.L[pre:] {
				mutateInstance(a, code, i+2000)
			}
			res.Evals++
			shape += "I"
			if c16 {
				if o := fullObs(b); o != ob {
					res.violate("C16", "instances-share-state", "", i, "mutating one instance (%v after common prefix %v) changed another instance (mode %d, %q/%q):\n before: %s\n after:  %s", op.L[pre:], op.L[:pre], op.D%4, op.S, op.T, ob, o)
				}
				res.Probes["independence_checked"]++
			}
		}
	}
	if c16 {
		res.NonTrivial = okReg > 0 && failReg > 0 && multiOrder > 0
	} else {
		res.NonTrivial = res.Probes["accepted_token_profile_checked"] > 0 && okReg > 0
	}
	res.Shape = hash64(shape, strings.Join(cfg.Names, ","))
	return res
}

func (regWorld) Simplify(o Op) []Op {
	var out []Op
	if o.K == "indep" && len(o.L) > 1 {
		for i := range o.L {
			c := o
			c.L = append(append([]int{}, o.L[:i]...), o.L[i+1:]...)
			if c.B > len(c.L) {
				c.B = len(c.L)
			}
			out = append(out, c)
		}
	}
	if o.K == "dispatch" && o.D > 2 {
		c := o
		c.D = 2
		out = append(out, c)
	}
	return out
}

// one fresh process per history: the register is process-global state, and so
// would be any hidden state a change adds next to it; a replay (and every
// minimisation step) therefore starts from a new process, not from a restore.
func runRegIsolated(prop string, tr *Trace) *Result {
	tj, _ := json.Marshal(tr)
	cmd := exec.Command(os.Args[0], "-exec1", "-", "-prop", prop)
	cmd.Stdin = bytes.NewReader(tj)
	var so, se bytes.Buffer
	cmd.Stdout, cmd.Stderr = &so, &se
	err := startWithRetry(cmd)
	if err == nil {
		err = cmd.Wait()
	}
	if idx := strings.LastIndex(so.String(), "RESULT "); idx >= 0 {
		var w resultWire
		line := so.String()[idx+7:]
		if nl := strings.IndexByte(line, '\n'); nl >= 0 {
			line = line[:nl]
		}
		if jerr := json.Unmarshal([]byte(line), &w); jerr == nil {
			return fromWire(&w)
		}
	}
	r := newResult()
	r.Fatal = fmt.Sprintf("child process failed (%v): %s", err, tail(se.String(), 800))
	return r
}

func init() {
	isolatedRunner["W-REG"] = runRegIsolated
}

// zeroInstance returns a claims object of the kind's type that carries nothing
// but its canonical profile and an empty component container (no preset profile claim).
func zeroInstance(kind, name string) psatoken.IClaims {
	// (an empty component container is part of being able to decode at all)
	cont := func() psatoken.ISwComponents { return &psatoken.SwComponents[*psatoken.SwComponent]{} }
	switch kind {
	case "p1":
		return &psatoken.P1Claims{CanonicalProfile: psatoken.Profile1Name, SwComponents: cont()}
	case "p2":
		return &psatoken.P2Claims{CanonicalProfile: psatoken.Profile2Name, SwComponents: cont()}
	case "xp1", "xp1n":
		return &XP1Claims{P1Claims: psatoken.P1Claims{CanonicalProfile: name, SwComponents: cont()}}
	case "xp2":
		return &XP2Claims{P2Claims: psatoken.P2Claims{CanonicalProfile: name, SwComponents: cont()}}
	}
	return nil
}
