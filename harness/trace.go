package main

import (
	"encoding/hex"
	"encoding/json"
	"fmt"
	"sort"
	"strings"
)

// HexBytes is a byte string that appears as hex in replay files.
type HexBytes []byte

func (h HexBytes) MarshalJSON() ([]byte, error) { return json.Marshal(hex.EncodeToString(h)) }
func (h *HexBytes) UnmarshalJSON(b []byte) error {
	var s string
	if err := json.Unmarshal(b, &s); err != nil {
		return err
	}
	v, err := hex.DecodeString(s)
	if err != nil {
		return err
	}
	*h = v
	return nil
}

// Op is one step of a concrete trace. Worlds interpret the generic argument
// fields; a replay file is human-readable because K and F name things.
type Op struct {
	K string   `json:"k"`           // operation kind
	A int      `json:"a,omitempty"` // generic integer arguments
	B int      `json:"b,omitempty"`
	C int      `json:"c,omitempty"`
	D int      `json:"d,omitempty"`
	S string   `json:"s,omitempty"` // generic string argument
	T string   `json:"t,omitempty"`
	X HexBytes `json:"x,omitempty"` // generic byte-string argument
	F string   `json:"f,omitempty"` // fault kind injected at / by this step
	L []int    `json:"l,omitempty"` // list argument (e.g. a permutation)
}

func (o Op) String() string {
	b, _ := json.Marshal(o)
	return string(b)
}

// Trace is a fully concrete execution: replaying it needs no PRNG.
type Trace struct {
	World string          `json:"world"`
	Seed  uint64          `json:"seed"` // run seed it was generated from (informational)
	Cfg   json.RawMessage `json:"cfg,omitempty"`
	Ops   []Op            `json:"ops"`
}

func (t *Trace) Clone() *Trace {
	c := *t
	c.Ops = append([]Op(nil), t.Ops...)
	return &c
}

// Violation of a property as reported by an oracle.
type Violation struct {
	Prop   string `json:"property"`
	Oracle string `json:"oracle"`
	// Sig identifies the specific failing input / call site for the
	// known-findings file; "" when the oracle has no stable notion of one.
	Sig   string `json:"signature,omitempty"`
	Msg   string `json:"message"`
	OpIdx int    `json:"op_index"`
}

func (v Violation) Class() string { return v.Prop + "/" + v.Oracle + "/" + v.Sig }

// Result of executing one trace.
type Result struct {
	Viol       []Violation
	Evals      int            // oracle evaluations
	OpsRun     int            // operations executed
	Faults     map[string]int // fault kinds that actually fired
	Probes     map[string]int // "this rare condition was hit"
	NonTrivial bool
	Shape      uint64 // distinctness hash
	Steps      uint64 // logical steps (ops, or T2 yields where instrumented)
	Log        []string
	// Fatal is set when the harness itself is inconsistent (exit 2).
	Fatal string
	// shapeAcc accumulates what the world wants hashed into Shape.
	shapeAcc string
	// Extra carries world-specific data back to the driver (e.g. the
	// recorded schedule of a concurrent run).
	Extra map[string]string
}

func newResult() *Result {
	return &Result{Faults: map[string]int{}, Probes: map[string]int{}}
}

func (r *Result) violate(prop, oracle, sig string, op int, format string, a ...any) {
	r.Viol = append(r.Viol, Violation{Prop: prop, Oracle: oracle, Sig: sig, Msg: fmt.Sprintf(format, a...), OpIdx: op})
}

func (r *Result) logf(format string, a ...any) {
	r.Log = append(r.Log, fmt.Sprintf(format, a...))
}

func (r *Result) Digest() uint64 { return hash64(r.Log...) }

// World is one simulated world.
type World interface {
	Name() string
	// Gen turns a run seed into a concrete trace for the given property/tier.
	Gen(prop string, tier string, idx int, r *Rng) *Trace
	// Exec runs a trace and evaluates the oracles of prop.
	Exec(prop string, t *Trace) *Result
	// Simplify proposes simpler variants of an op for the minimiser.
	Simplify(o Op) []Op
}

// Concretiser is implemented by worlds whose generated traces still contain a
// seeded choice source (a scheduler seed): after a violating run the recorded
// choices replace the seed, so the replay file is fully explicit.
type Concretiser interface {
	Concretise(t *Trace, res *Result) *Trace
}

// CfgShrinker is implemented by worlds that can propose simpler
// configurations (beyond dropping and simplifying operations).
type CfgShrinker interface {
	ShrinkCfg(t *Trace) []*Trace
}

func sortedKeys(m map[string]int) []string {
	ks := make([]string, 0, len(m))
	for k := range m {
		ks = append(ks, k)
	}
	sort.Strings(ks)
	return ks
}

func opKinds(ops []Op) string {
	var sb strings.Builder
	for _, o := range ops {
		sb.WriteString(o.K)
		if o.F != "" {
			sb.WriteString("!" + o.F)
		}
		sb.WriteByte(',')
	}
	return sb.String()
}
