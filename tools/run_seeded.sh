#!/bin/bash
# tools/run_seeded.sh [tier] [name-glob]  - re-runs every kept seeded change against the checks
# recorded in its meta.json (caught_by) and reports whether each is still caught.
# Scratch worktrees only; /repo and the committed evidence are never touched.
tier="${1:-quick}"; glob="${2:-*}"
cd "$(dirname "$0")/.."
ok=0; miss=0
for d in seeded/$glob/; do
  n="$(basename "$d")"
  ids="$(python3 - "$d/meta.json" <<'P'
import json,sys,re
m=json.load(open(sys.argv[1]))
ids=[]
for c in m.get('caught_by',[]):
    for i in re.findall(r'C\d\d', c):
        if i not in ids: ids.append(i)
print(' '.join(ids[:2]))
P
)"
  [ -n "$ids" ] || continue
  out="$(tools/trymutant.sh "$d" "$tier" $ids 2>&1)"
  if echo "$out" | grep -q "exit=1"; then ok=$((ok+1)); echo "CAUGHT  $n  ($(echo "$out" | grep -m1 'exit=1' | sed 's/  */ /g' | cut -c1-110))"; else miss=$((miss+1)); echo "MISSED  $n"; echo "$out" | sed 's/^/    /'; fi
done
echo "seeded changes caught: $ok, missed: $miss"
[ $miss -eq 0 ]
