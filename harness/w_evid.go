package main

import (
	"reflect"
	"bytes"
	"encoding/json"
	"fmt"

	cose "github.com/veraison/go-cose"
	psatoken "github.com/veraison/psatoken"
	"github.com/veraison/psatoken/zzverif/simrt"
)

// W-EVID: one Evidence object driven through a history of attach / sign /
// decode / verify / mutate operations, with signer faults (S6) and user-codec
// faults (S7). Serves C19 and the Evidence-related gates of C08.

type TokenDesc struct {
	Kind   string   `json:"kind"` // valid | flip-payload | flip-sig | flip-prot | trunc | garbage | rawpayload
	Claims int      `json:"claims"`
	Signer int      `json:"signer"`
	A      int      `json:"a,omitempty"`
	B      int      `json:"b,omitempty"`
	X      HexBytes `json:"x,omitempty"`
}

type EvidCfg struct {
	Claims  []ClaimsDesc `json:"claims"`
	Signers []SignerSpec `json:"signers"`
	Tokens  []TokenDesc  `json:"tokens"`
}

type evidWorld struct{}

func (evidWorld) Name() string { return "W-EVID" }

func genSignerSpec(r *Rng, cheap bool) SignerSpec {
	var alg string
	if cheap {
		alg = []string{"ES256", "EdDSA", "ES256", "EdDSA", "ES384", "PS256", "ES512", "PS384", "PS512"}[r.Intn(9)]
	} else {
		alg = allAlgs[r.Intn(len(allAlgs))]
	}
	ks := keysForAlg(alg)
	return SignerSpec{Alg: alg, Key: ks[r.Intn(len(ks))]}
}

// xp1 (an extension over profile 1 with its own name) is not used here: CBOR
// dispatch looks at key 265 only, so such a profile is by design not reachable
// through Evidence.UnmarshalCOSE and the binding clause would compare apples
// with pears.
var profFamilies = []string{"p1", "p2", "p1", "p2", "xp2", "xw", "xu", "xc", "xk"}

func (evidWorld) Gen(prop, tier string, idx int, r *Rng) *Trace {
	var cfg EvidCfg
	nClaims := r.Range(3, 6)
	cfg.Claims = append(cfg.Claims, genValidClaims(r, profFamilies[r.Intn(len(profFamilies))]))
	for i := 1; i < nClaims; i++ {
		pf := profFamilies[r.Intn(len(profFamilies))]
		if r.Chance(1, 2) {
			cfg.Claims = append(cfg.Claims, genValidClaims(r, pf))
		} else {
			cfg.Claims = append(cfg.Claims, genInvalidClaims(r, pf))
		}
	}
	nSig := r.Range(2, 4)
	for i := 0; i < nSig; i++ {
		cfg.Signers = append(cfg.Signers, genSignerSpec(r, true))
	}
	nTok := r.Range(3, 6)
	tokKinds := []string{"valid", "valid", "flip-payload", "flip-sig", "flip-prot", "trunc", "garbage", "rawpayload", "valid", "tree", "tree"}
	for i := 0; i < nTok; i++ {
		td := TokenDesc{Kind: tokKinds[r.Intn(len(tokKinds))], Claims: r.Intn(nClaims), Signer: r.Intn(nSig), A: r.Intn(1 << 16)}
		switch td.Kind {
		case "garbage":
			td.X = r.Bytes(r.Range(0, 40))
		case "rawpayload":
			td.X = [][]byte{{0x01}, {0xa0}, {0xf6}, {0xa1, 0x19, 0x01, 0x09, 0x63, 'a', ':', 'b'}, {0x80}, {0xa1, 0x0a}, {},
				// a profile-1 map whose client id is a text string; a profile-2 map whose client id is a text string
				{0xa2, 0x3a, 0x00, 0x01, 0x24, 0xf8, 0x61, 'x', 0x3a, 0x00, 0x01, 0x24, 0xf9, 0x19, 0x30, 0x00},
				append(append([]byte{0xa2, 0x19, 0x01, 0x09, 0x78, 0x18}, psatoken.Profile2Name...), 0x19, 0x09, 0x5a, 0x61, 'x')}[r.Intn(9)]
		}
		cfg.Tokens = append(cfg.Tokens, td)
	}
	// op mix, swarm style: weights drawn per run
	kinds := []string{"setclaims", "sign", "vsign", "unmarshal", "verify", "mutate", "encgate", "decgate", "cloneunmarshal"}
	w := make([]int, len(kinds))
	for i := range w {
		w[i] = r.Range(0, 4)
	}
	if prop == "C19" {
		w[1] += 3
		w[2] += 2
		w[3] += 2
		w[4] += 5
		w[6], w[7] = 0, 0
	} else { // C08
		w[0] += 3
		w[2] += 3
		w[6] += 3
		w[7] += 3
		w[4] += 1
	}
	faultRate := []int{0, 1, 2, 3}[r.Intn(4)] // out of 8
	n := r.Range(1, 30)
	var ops []Op
	for i := 0; i < n; i++ {
		k := kinds[r.Weighted(w)]
		op := Op{K: k}
		switch k {
		case "setclaims", "encgate":
			op.A = r.Intn(nClaims)
		case "sign", "vsign":
			op.A = r.Intn(nSig)
			if r.Chance(1, 5) {
				op.D = 1 // a signer that serves somebody else before it answers
			}
		case "unmarshal", "decgate", "cloneunmarshal":
			op.A = r.Intn(nTok)
		case "verify":
			// bias to keys in use; sometimes any key, sometimes nil
			switch r.Intn(6) {
			case 0:
				op.A = -1
			case 1:
				op.A = r.Intn(len(keyPool))
			default:
				op.A = cfg.Signers[r.Intn(nSig)].Key
			}
		case "mutate":
			op.A = r.Intn(16)
			op.B = r.Intn(1 << 20)
		}
		if r.Chance(faultRate, 8) {
			switch k {
			case "sign", "vsign":
				if r.Chance(3, 4) {
					op.F = signerFaults[r.Intn(len(signerFaults))]
				} else {
					op.F = codecFaults[r.Intn(len(codecFaults))]
					op.B = r.Range(1, 3)
				}
			case "setclaims", "encgate", "unmarshal", "decgate":
				op.F = codecFaults[r.Intn(len(codecFaults))]
				op.B = r.Range(1, 3)
			}
		}
		ops = append(ops, op)
	}
	// bias: after a faulted sign, put a verify right behind it
	for i := 0; i < len(ops)-1; i++ {
		if (ops[i].K == "sign" || ops[i].K == "vsign") && ops[i].F != "" && r.Chance(1, 2) {
			ops[i+1] = Op{K: "verify", A: cfg.Signers[ops[i].A].Key}
		}
	}
	cj, _ := json.Marshal(cfg)
	return &Trace{World: "W-EVID", Cfg: cj, Ops: ops}
}

func flipBit(b []byte, bit int) []byte {
	out := append([]byte{}, b...)
	if len(out) == 0 {
		return out
	}
	bit %= len(out) * 8
	out[bit/8] ^= 1 << uint(bit%8)
	return out
}

// directSign signs payload with go-cose directly (no psatoken involved) and
// returns the tagged message.
func directSign(spec SignerSpec, payload []byte) ([]byte, error) {
	s, err := healthySigner(spec)
	if err != nil {
		return nil, err
	}
	m := cose.NewSign1Message()
	m.Headers.Protected.SetAlgorithm(s.Algorithm())
	m.Payload = payload
	if err := m.Sign(nil, []byte(""), s); err != nil {
		return nil, err
	}
	return m.MarshalCBOR()
}

type ledger map[int]map[string]bool

func (l ledger) add(key int, triple string) {
	if l[key] == nil {
		l[key] = map[string]bool{}
	}
	l[key][triple] = true
}

func (l ledger) has(key int, triple string) bool { return l[key] != nil && l[key][triple] }

type envModel struct {
	state    string // none | failed | signed | unknown
	parts    sign1Parts
	triple   string
	replaced bool
	relaxed  bool // a failed envelope decode happened: a genuine envelope may have been dropped
	// what the covered payload decodes to, rendered at the moment the envelope
	// was adopted (a string: immune to any later sharing between decoded objects)
	payloadObs string
}

func (m *envModel) adopt(tok []byte) bool {
	p, ok := splitSign1(tok)
	if !ok || !p.ProtIsBstr || !p.PayloadIsBstr || !p.SigIsBstr {
		m.state = "unknown"
		return false
	}
	m.state = "signed"
	m.parts = p
	m.triple = p.tripleKey()
	m.replaced = false
	m.relaxed = false
	m.payloadObs = safely(func() string {
		dec, err := psatoken.DecodeClaimsFromCBOR(append([]byte{}, p.Payload...))
		if err != nil {
			return "undecodable"
		}
		return getterObs(dec)
	})
	return true
}

func (evidWorld) Exec(prop string, t *Trace) *Result {
	res := newResult()
	var cfg EvidCfg
	if err := json.Unmarshal(t.Cfg, &cfg); err != nil {
		res.Fatal = "bad cfg: " + err.Error()
		return res
	}
	registerSimProfiles()
	disarmCodec()
	if len(cfg.Claims) == 0 || len(cfg.Signers) == 0 {
		res.Fatal = "empty pools"
		return res
	}
	live := make([]psatoken.IClaims, len(cfg.Claims))
	for i := range cfg.Claims {
		c, err := cfg.Claims[i].build()
		if err == nil {
			live[i] = c
		}
	}
	if live[0] == nil {
		// the library refuses to materialise the description (it decides what can be built): nothing to drive
		res.Probes["initial_claims_unbuildable"]++
		return res
	}
	led := ledger{}
	tokens := make([][]byte, len(cfg.Tokens))
	for i, td := range cfg.Tokens {
		tokens[i] = makeEvidToken(&cfg, live, td, led)
	}
	c19 := prop == "C19"
	c08 := prop == "C08"

	e := &psatoken.Evidence{}
	e.Claims = live[0]
	// C08: a shadow Evidence goes through the same history with every validating
	// call replaced by its non-validating counterpart (plain assignment for
	// SetClaims, Sign for ValidateAndSign) whenever the claims are valid; while the
	// two are in step they must be indistinguishable, also after a collaborator fault.
	shadow := &psatoken.Evidence{Claims: live[0]}
	inStep := true
	model := &envModel{state: "none"}
	faultSeen := false
	verifyAfterFault := false
	gateInvalid, gateValid := 0, 0
	// tokens handed out by successful signing calls: the very slices the
	// library returned, plus a private snapshot taken at that moment
	type heldTok struct {
		ret, snap []byte
		at        int
	}
	var held, heldEnc []heldTok

	for i, op := range t.Ops {
		res.OpsRun++
		res.Steps++
		codecArmed := false
		if len(op.F) > 6 && op.F[:6] == "codec." {
			n := op.B
			if n < 1 {
				n = 1
			}
			armCodec(op.F, n)
			codecArmed = true
		}
		switch op.K {
		case "setclaims":
			if op.A < 0 || op.A >= len(live) || live[op.A] == nil {
				break
			}
			c := live[op.A]
			var v error
			if !codecArmed {
				v = c.Validate()
			} else {
				saved := codecFault
				codecFault.kind = ""
				v = c.Validate()
				codecFault = saved
			}
			prev := e.Claims
			err := e.SetClaims(c)
			fired := disarmCodec()
			res.logf("%d setclaims %d v=%s err=%s", i, op.A, okOrErr(v), okOrErr(err))
			if c08 {
				res.Evals++
				if v != nil {
					gateInvalid++
					if err == nil {
						res.violate("C08", "setclaims-accepts-invalid", "", i, "SetClaims accepted claims whose Validate() fails (%v)", v)
					}
					if e.Claims != prev {
						res.violate("C08", "setclaims-attaches-on-failure", "", i, "SetClaims failed but Evidence.Claims changed")
					}
				} else if fired == 0 {
					gateValid++
					if err != nil {
						res.violate("C08", "setclaims-rejects-valid", "", i, "SetClaims rejected valid claims: %v", err)
					} else if e.Claims != c {
						res.violate("C08", "setclaims-attaches-other", "", i, "SetClaims succeeded but Evidence.Claims is not the supplied object")
					}
				} else {
					// injected validation failure inside the gate: it must fail and attach nothing
					if err == nil || e.Claims != prev {
						res.violate("C08", "setclaims-ignores-validate-error", "", i, "SetClaims ignored a failing Validate()")
					}
				}
			}
			if fired > 0 {
				res.Faults[op.F] += fired
				faultSeen = true
			}
			if err == nil {
				model.replaced = true
			} else if e.Claims != prev {
				model.replaced = true
			}
			if c08 {
				if v == nil && fired == 0 {
					shadow.Claims = c
				} else if v == nil {
					inStep = false // an injected validation failure has no non-validating counterpart
				}
			}
		case "sign", "vsign":
			if op.A < 0 || op.A >= len(cfg.Signers) {
				break
			}
			if e.Claims == nil {
				// outside the property's precondition ("claims are attached")
				res.Probes["sign_skipped_nil_claims"]++
				disarmCodec()
				break
			}
			spec := cfg.Signers[op.A]
			hs, err := healthySigner(spec)
			if err != nil {
				res.Fatal = "signer: " + err.Error()
				return res
			}
			var signer cose.Signer = hs
			var fs *FaultySigner
			if op.F != "" && !codecArmed {
				fs = &FaultySigner{inner: hs, kind: op.F}
				signer = fs
			}
			var busyOther psatoken.IClaims
			if op.D == 1 {
				for k := range live {
					if c := live[(op.A+1+k)%len(live)]; c != nil && c != e.Claims {
						busyOther = c
						break
					}
				}
				signer = &BusySigner{inner: signer, other: busyOther}
				res.Probes["busy_signer"]++
			}
			var v error
			{
				saved := codecFault
				codecFault.kind = ""
				v = e.Claims.Validate()
				codecFault = saved
			}
			var tok []byte
			if op.K == "sign" {
				tok, err = e.Sign(signer)
			} else {
				tok, err = e.ValidateAndSign(signer)
			}
			fired := disarmCodec()
			sfired := fs != nil && fs.Fired
			if fired > 0 {
				res.Faults[op.F] += fired
				faultSeen = true
			}
			if sfired {
				res.Faults[op.F]++
				faultSeen = true
			}
			if c19 && fired > 0 && err == nil && (op.F == "codec.marshal_err" || op.F == "codec.swmarshal_err") {
				res.violate("C19", "token-despite-codec-fault", "", i, "%s returned a token although the claims' own CBOR encoder failed during the call (%s): the payload cannot be the encoding of the attached claims", op.K, op.F)
			}
			res.logf("%d %s signer=%d f=%s v=%s err=%s tok=%x", i, op.K, op.A, op.F, okOrErr(v), okOrErr(err), tok)
			if err != nil {
				res.Evals++
				if len(tok) != 0 && (c19 || c08) {
					res.violate(prop, "failed-op-returns-token", "", i, "%s failed (%v) but returned %d bytes", op.K, err, len(tok))
				}
				model.state = "failed"
				model.replaced = false
				model.relaxed = false
				res.Probes["sign_failed"]++
				if c19 && op.F == "" && fired == 0 && !sfired && v == nil {
					// valid claims, a healthy signer, nothing injected into this call: whatever failed
					// earlier (in this history or another one) must not stand in its way
					res.violate("C19", "sign-of-valid-claims-fails", "", i, "%s of valid claims with a healthy signer and no fault in this call failed: %v", op.K, err)
				}
			} else {
				held = append(held, heldTok{ret: tok, snap: append([]byte{}, tok...), at: i})
				ok := model.adopt(tok)
				if !ok {
					if c19 {
						res.violate("C19", "sign-output-not-sign1", "", i, "successful %s returned bytes that are not tag-18 [bstr,map,bstr,bstr]: %x", op.K, tok)
					}
				} else {
					genuineSig := !(sfired && signerFaultYieldsToken(op.F))
					if sfired && op.F == "sig.flipalg" {
						// a library that does not notice the changing algorithm emits a
						// token whose status the property does not define
						model.state = "unknown"
					}
					if sfired && signerMustFail(op.F) && c19 {
						// the signer failed / returned nothing, yet a token came out
						res.violate("C19", "token-despite-signer-fault", "", i, "%s returned a token although the signer fault %s fired", op.K, op.F)
					}
					if genuineSig && !sfired {
						led.add(spec.Key, model.triple)
						res.Probes["sign_ok"]++
						if model.state == "signed" {
							res.Probes["sign_twice_candidates"]++
						}
					}
					if c19 && genuineSig && !sfired {
						// each token is independently valid in a fresh Evidence
						res.Evals++
						ev2, derr := psatoken.DecodeEvidenceFromCOSE(append([]byte{}, tok...))
						if derr != nil {
							registered := true
							if pn, perr := e.Claims.GetProfile(); perr == nil {
								if _, nerr := psatoken.NewClaims(pn); nerr != nil {
									registered = false // a party that only encodes: its profile was never registered here
									res.Probes["signed_claims_of_unregistered_profile"]++
								}
							}
							if v == nil && registered {
								res.violate("C19", "fresh-decode-fails", "", i, "token from successful %s of valid claims does not decode: %v", op.K, derr)
							}
						} else if verr := ev2.Verify(pubKey(spec.Key)); verr != nil {
							res.violate("C19", "fresh-verify-fails", "", i, "token from successful %s does not verify in a fresh Evidence: %v", op.K, verr)
						} else {
							res.Probes["fresh_verify_ok"]++
						}
					}
				}
			}
			if c08 {
				// the same call on the shadow, validation left out
				switch {
				case op.K == "vsign" && (v != nil || op.F == "codec.validate_err"):
					inStep = false // the validating call refuses (or its Validate() is made to fail); its counterpart would sign
				case shadow.Claims == nil:
					inStep = false
				default:
					var ssigner cose.Signer = hs
					if fs != nil {
						ssigner = &FaultySigner{inner: hs, kind: op.F}
					}
					if op.D == 1 {
						ssigner = &BusySigner{inner: ssigner, other: busyOther}
					}
					if codecArmed {
						n := op.B
						if n < 1 {
							n = 1
						}
						armCodec(op.F, n)
					}
					stok, serr := shadow.Sign(ssigner)
					disarmCodec()
					if inStep {
						res.Evals++
						if (serr == nil) != (err == nil) || !bytes.Equal(stok, tok) {
							res.violate("C08", "validating-sign-differs-from-plain-sign", "", i, "%s on an Evidence and Sign on its shadow (same history, valid claims, same signer behaviour %q) disagree: err=%v / %v, %d / %d bytes", op.K, op.F, err, serr, len(tok), len(stok))
						}
						for _, k := range []int{spec.Key, -1} {
							a, b := e.Verify(pubKey(k)), shadow.Verify(pubKey(k))
							if (a == nil) != (b == nil) {
								res.violate("C08", "validating-sign-leaves-different-state", "", i, "after %s (signer behaviour %q, err=%v) the Evidence and its shadow that used Sign answer Verify(key %d) differently: %v / %v", op.K, op.F, err, k, a, b)
							}
						}
						res.Probes["shadow_compared"]++
					}
					if err == nil && serr == nil {
						inStep = true // both now hold a freshly signed message over the same claims
					}
				}
			}
			if c08 && op.K == "vsign" {
				res.Evals++
				if v != nil {
					gateInvalid++
					if err == nil {
						res.violate("C08", "vsign-accepts-invalid", "", i, "ValidateAndSign signed claims whose Validate() fails (%v)", v)
					}
				} else if fired == 0 && !sfired {
					gateValid++
					if err != nil {
						res.violate("C08", "vsign-rejects-valid", "", i, "ValidateAndSign failed on valid claims with a healthy signer: %v", err)
					} else {
						twin := &psatoken.Evidence{Claims: e.Claims}
						tok2, err2 := twin.Sign(hs)
						if err2 != nil || !bytes.Equal(tok, tok2) {
							res.violate("C08", "vsign-differs-from-sign", "", i, "ValidateAndSign output differs from Sign on the same valid claims (err2=%v)", err2)
						}
					}
				}
			}
		case "unmarshal":
			if op.A < 0 || op.A >= len(tokens) {
				break
			}
			tok := tokens[op.A]
			buf := append([]byte{}, tok...)
			err := e.UnmarshalCOSE(buf)
			fired := disarmCodec()
			if c08 {
				if codecArmed {
					n := op.B
					if n < 1 {
						n = 1
					}
					armCodec(op.F, n)
				}
				serr := shadow.UnmarshalCOSE(append([]byte{}, tok...))
				disarmCodec()
				inStep = (serr == nil) == (err == nil)
			}
			if fired > 0 {
				res.Faults[op.F] += fired
				faultSeen = true
			}
			// independent view of the envelope
			var probe cose.Sign1Message
			envErr := probe.UnmarshalCBOR(tok)
			res.logf("%d unmarshal %d err=%s env=%s", i, op.A, okOrErr(err), okOrErr(envErr))
			if envErr != nil {
				// the envelope was not adopted; the previous one may or may not survive
				model.relaxed = true
				res.Probes["unmarshal_bad_envelope"]++
				if err == nil && c19 {
					// decoding succeeded on something go-cose itself rejects: out of this model
					model.state = "unknown"
				}
			} else {
				model.adopt(tok)
				if err != nil {
					res.Probes["unmarshal_claims_fail_envelope_ok"]++
				} else {
					res.Probes["unmarshal_ok"]++
				}
			}
		case "cloneunmarshal":
			// the Evidence is copied BY VALUE and the copy is recycled for another token:
			// nothing about the original may change
			if op.A < 0 || op.A >= len(tokens) {
				break
			}
			alt := *e
			_ = alt.UnmarshalCOSE(append([]byte{}, tokens[op.A]...))
			if c08 {
				salt := *shadow
				_ = salt.UnmarshalCOSE(append([]byte{}, tokens[op.A]...))
			}
			res.Probes["evidence_copied_by_value_and_recycled"]++
			res.logf("%d cloneunmarshal %d", i, op.A)
		case "verify":
			err := e.Verify(pubKey(op.A))
			res.Evals++
			genuine := model.state == "signed" && led.has(op.A, model.triple)
			res.logf("%d verify key=%d err=%s state=%s genuine=%v", i, op.A, okOrErr(err), model.state, genuine)
			if faultSeen {
				verifyAfterFault = true
			}
			if c08 && inStep {
				if serr := shadow.Verify(pubKey(op.A)); (serr == nil) != (err == nil) {
					res.violate("C08", "validating-history-leaves-different-state", "", i, "Verify(key %d) answers %v on the Evidence and %v on its shadow, which went through the same history with the validating calls replaced by their plain counterparts", op.A, err, serr)
				}
			}
			if !c19 {
				break
			}
			if err == nil {
				switch model.state {
				case "failed":
					res.violate("C19", "verify-after-failed-sign", "", i, "Verify succeeded although the last signing attempt failed")
				case "none":
					res.violate("C19", "verify-without-envelope", "", i, "Verify succeeded although nothing was signed or decoded")
				case "signed":
					if !genuine {
						res.violate("C19", "verify-accepts-non-genuine", "", i, "Verify(key %d) succeeded for an envelope that key never signed", op.A)
					}
					if !model.replaced && e.Claims != nil {
						res.Probes["binding_evaluated"]++
						dec, derr := psatoken.DecodeClaimsFromCBOR(model.parts.Payload)
						if derr != nil {
							// The dispatching decoder refuses the payload (e.g. the owner edited the claims into
							// declaring an unknown profile and signed without validation). The binding can still
							// be judged: decode the payload into a fresh object of the attached claims' own type,
							// or, if that is impossible too, compare the payload with the encoding of the attached claims.
							if like := decodeLike(e.Claims, model.parts.Payload); like != nil {
								res.Probes["binding_judged_by_same_type_decode"]++
								if a, b := getterObs(like), getterObs(e.Claims); a != b {
									res.violate("C19", "binding-mismatch", "", i, "Verify succeeded but attached claims differ from the covered payload (decoded into the same claims type):\n payload: %s\n attached: %s", a, b)
								}
							} else if enc, eerr := psatoken.EncodeClaimsToCBOR(e.Claims); eerr != nil || !bytes.Equal(enc, model.parts.Payload) {
								res.violate("C19", "binding-payload-undecodable", "", i, "Verify succeeded, claims are attached, but the covered payload neither decodes (%v) nor is the encoding of the attached claims", derr)
							}
						} else if extra := claimsNotInPayload(e.Claims, model.parts.Payload); extra != "" {
							res.violate("C19", "binding-mismatch", "", i, "Verify succeeded but the attached claims carry a claim (key %s) that the covered payload does not contain (harness CBOR walker on the payload and on the encoding of the attached claims)", extra)
						} else if n, ok := wireComponentCount(model.parts.Payload); ok && !componentCountAgrees(e.Claims, n) {
							res.violate("C19", "binding-mismatch", "", i, "Verify succeeded but the covered payload lists %d software-component entries (harness CBOR walker) while the attached claims expose a different number", n)
						} else if a, b := getterObs(dec), getterObs(e.Claims); a != b {
							res.violate("C19", "binding-mismatch", "", i, "Verify succeeded but attached claims differ from the covered payload:\n payload: %s\n attached: %s", a, b)
						} else if model.payloadObs != "undecodable" && model.payloadObs != b {
							res.violate("C19", "binding-mismatch", "", i, "Verify succeeded but attached claims differ from what the covered payload decoded to when the envelope was adopted (nothing replaced them since):\n then: %s\n now:  %s", model.payloadObs, b)
						}
					}
				}
				res.Probes["verify_ok"]++
			} else {
				if genuine && !model.relaxed {
					res.violate("C19", "genuine-envelope-rejected", "", i, "Verify(key %d) failed for an envelope that key signed: %v", op.A, err)
				}
				if model.state == "failed" {
					res.Probes["verify_after_failed_sign"]++
				}
			}
		case "mutate":
			if e.Claims == nil {
				break
			}
			c := e.Claims
			if op.A%16 == 15 {
				// the template idiom: next := *attached; next.SetNonce(fresh) ... The attached object itself
				// is not touched, so this is NOT a replacement of the claims
				forkAndSet(c, op.B)
				res.Probes["attached_claims_forked_by_struct_copy"]++
				res.logf("%d fork", i)
				break
			}
			switch op.A % 16 {
			case 5, 6, 7, 8, 9, 10, 11, 12, 13, 14:
				// the owner edits exported fields of its claims object directly: states no setter can produce
				// (10, 11: a component, through the pointer the getter hands out; 12, 13: the list amended
				// in place - one more component through the container's Add, a component's own setter)
				fieldMutate(c, op.A%16)
			case 0:
				_ = c.SetClientID(int32(op.B))
			case 1:
				_ = c.SetSoftwareComponents([]psatoken.ISwComponent{})
			case 2:
				_ = c.SetVSI(fmt.Sprintf("mutated-%d", op.B))
			case 3:
				nb := NewRng(uint64(op.B)).Bytes(32)
				_ = c.SetNonce(nb)
			case 4:
				_ = c.SetSecurityLifeCycle(uint16(0x3000 + op.B%256))
			}
			model.replaced = true
			if c08 && shadow.Claims != nil && shadow.Claims != c {
				// decoded separately: keep the shadow's copy in step
				sc := shadow.Claims
				switch op.A % 16 {
				case 5, 6, 7, 8, 9, 10, 11, 12, 13, 14:
					fieldMutate(sc, op.A%16)
				case 0:
					_ = sc.SetClientID(int32(op.B))
				case 1:
					_ = sc.SetSoftwareComponents([]psatoken.ISwComponent{})
				case 2:
					_ = sc.SetVSI(fmt.Sprintf("mutated-%d", op.B))
				case 3:
					_ = sc.SetNonce(NewRng(uint64(op.B)).Bytes(32))
				case 4:
					_ = sc.SetSecurityLifeCycle(uint16(0x3000 + op.B%256))
				}
			}
			res.logf("%d mutate %d", i, op.A)
		case "encgate":
			if !c08 || op.A < 0 || op.A >= len(live) || live[op.A] == nil {
				disarmCodec()
				break
			}
			c := live[op.A]
			saved := codecFault
			codecFault.kind = ""
			v := c.Validate()
			codecFault = saved
			if codecArmed {
				// keep the fault-free and the faulted arm apart: only the validating call runs under the fault
				var b1 []byte
				var e1 error
				if i%2 == 0 {
					b1, e1 = psatoken.ValidateAndEncodeClaimsToCBOR(c)
				} else {
					b1, e1 = psatoken.ValidateAndEncodeClaimsToJSON(c)
				}
				fired := disarmCodec()
				res.Evals++
				if fired > 0 {
					res.Faults[op.F] += fired
					faultSeen = true
					if e1 == nil || len(b1) != 0 {
						res.violate("C08", "encgate-ignores-codec-error", "", i, "ValidateAndEncodeClaimsTo%s returned bytes although the user codec failed (%s)", map[bool]string{true: "CBOR", false: "JSON"}[i%2 == 0], op.F)
					}
				}
				break
			}
			for _, ser := range []string{"cbor", "json"} {
				var b1, b2 []byte
				var e1, e2 error
				if ser == "cbor" {
					b1, e1 = psatoken.ValidateAndEncodeClaimsToCBOR(c)
					b2, e2 = psatoken.EncodeClaimsToCBOR(c)
				} else {
					b1, e1 = psatoken.ValidateAndEncodeClaimsToJSON(c)
					b2, e2 = psatoken.EncodeClaimsToJSON(c)
				}
				res.Evals++
				if v != nil {
					gateInvalid++
					if e1 == nil {
						res.violate("C08", "encgate-accepts-invalid-"+ser, "", i, "validate-and-encode (%s) emitted bytes for claims whose Validate() fails (%v)", ser, v)
					} else if len(b1) != 0 {
						res.violate("C08", "encgate-bytes-on-failure-"+ser, "", i, "validate-and-encode (%s) failed but returned %d bytes", ser, len(b1))
					}
					// what the PLAIN encoder emits for an invalid claims-set must not pass the decode-and-validate gate
					if e2 == nil && len(b2) > 0 && sameImplementationDecodes(ser, b2, c) {
						res.Evals++
						if passesDecodeGate(ser, b2) {
							res.violate("C08", "invalid-claims-pass-decode-gate-"+ser, "", i, "claims whose Validate() fails (%v) were encoded (%s, no validation) and the result is accepted by the decode-and-validate gate", v, ser)
						}
					}
				} else {
					gateValid++
					if (e1 == nil) != (e2 == nil) || !bytes.Equal(b1, b2) {
						res.violate("C08", "encgate-differs-from-plain-"+ser, "", i, "validate-and-encode (%s) differs from plain encode on valid claims: e1=%v e2=%v", ser, e1, e2)
					}
					if e1 == nil && profileRegistered(c) {
						// a validating producer never lets an invalid claims-set out: its output is itself acceptable
						res.Evals++
						if !passesDecodeGate(ser, b1) {
							res.violate("C08", "validated-encoding-fails-decode-gate-"+ser, "", i, "validate-and-encode (%s) of valid claims produced bytes that the decode-and-validate gate rejects", ser)
						}
					}
					if e1 == nil {
						// the very slices handed out are kept and looked at again after every later step
						heldEnc = append(heldEnc, heldTok{ret: b1, snap: append([]byte{}, b1...), at: i})
						heldEnc = append(heldEnc, heldTok{ret: b2, snap: append([]byte{}, b2...), at: i})
					}
				}
			}
			res.logf("%d encgate %d v=%s", i, op.A, okOrErr(v))
		case "decgate":
			disarmCodec()
			if !c08 || op.A < 0 || op.A >= len(tokens) {
				break
			}
			gi, gv := decodeGates(res, i, tokens[op.A])
			gateInvalid += gi
			gateValid += gv
		}
		disarmCodec()
		if c08 {
			for _, h := range heldEnc {
				if !bytes.Equal(h.ret, h.snap) {
					res.violate("C08", "encoded-bytes-changed-by-later-call", "", i, "bytes returned by an encode call at step %d were modified by a later operation (so the validating encoder does not behave like its plain counterpart, whose results are independent)\n was: %x\n now: %x", h.at, h.snap, h.ret)
					break
				}
			}
			if len(heldEnc) > 2 {
				res.Probes["held_encodings_rechecked"]++
			}
		}
		if c19 {
			for _, h := range held {
				if !bytes.Equal(h.ret, h.snap) {
					res.violate("C19", "earlier-token-changed-by-later-operation", "", i, "the token returned by the signing call at step %d was modified by a later operation on the same Evidence (tokens must be independent)\n was: %x\n now: %x", h.at, h.snap, h.ret)
					res.Probes["held_token_changed"]++
				}
			}
			if len(held) > 1 {
				res.Probes["held_tokens_rechecked"]++
			}
		}
	}
	res.Shape = hash64(opKinds(t.Ops), poolShape(&cfg))
	if c19 {
		res.NonTrivial = faultSeen && verifyAfterFault
	} else {
		res.NonTrivial = gateInvalid > 0 && gateValid > 0
	}
	return res
}

func poolShape(cfg *EvidCfg) string {
	s := ""
	for _, c := range cfg.Claims {
		s += c.Prof + fmt.Sprint(c.Defects) + ","
	}
	for _, g := range cfg.Signers {
		s += g.Alg + ","
	}
	for _, t := range cfg.Tokens {
		s += t.Kind + ","
	}
	return s
}

// pairGate compares one decoder with its validating twin on one byte string.
func pairGate(res *Result, i int, name string, b []byte, d, dv func([]byte) (psatoken.IClaims, error)) (gateInvalid, gateValid int) {
	defer func() {
		if r := recover(); r != nil {
			// panics are C05's to judge
			res.Probes["gate_panic_skipped"]++
		}
	}()
	c1, e1 := d(append([]byte{}, b...))
	c2, e2 := dv(append([]byte{}, b...))
	res.Evals++
	if e1 != nil {
		if e2 == nil {
			res.violate("C08", "decgate-"+name+"-validating-accepts-undecodable", "", i, "the validating %s decoder succeeded where the plain one fails (%v); input %x", name, e1, head(b, 512))
		}
		return
	}
	if c1 == nil {
		return
	}
	s1 := structObs(c1) // before anything has called Validate() on the plain decoder's result
	v := c1.Validate()
	if v != nil {
		// the same (invalid) claims-set, re-encoded without validation in either serialisation, must not pass a gate
		for _, ser := range []string{"cbor", "json"} {
			var rb []byte
			var rerr error
			if ser == "cbor" {
				rb, rerr = psatoken.EncodeClaimsToCBOR(c1)
			} else {
				rb, rerr = psatoken.EncodeClaimsToJSON(c1)
			}
			if rerr == nil && len(rb) > 0 && sameImplementationDecodes(ser, rb, c1) {
				res.Evals++
				if passesDecodeGate(ser, rb) {
					res.violate("C08", "invalid-claims-pass-decode-gate-"+ser, "", i, "claims decoded by the plain %s decoder fail Validate() (%v), yet their %s re-encoding is accepted by the decode-and-validate gate", name, v, ser)
				}
			}
		}
		gateInvalid++
		if e2 == nil {
			res.violate("C08", "decgate-"+name+"-accepts-invalid", "", i, "the validating %s decoder accepted claims whose Validate() fails (%v); input %x", name, v, head(b, 512))
		} else if c2 != nil {
			res.violate("C08", "decgate-"+name+"-returns-on-failure", "", i, "the validating %s decoder failed but returned claims", name)
		}
		return
	}
	gateValid++
	if e2 == nil && c2 != nil && sameObject(c1, c2) {
		res.violate("C08", "decgate-"+name+"-differs", "same-object", i, "the validating %s decoder handed back the very object an earlier plain decode of the same bytes returned: it validated a caller-owned object, not what is on the wire", name)
	}
	if e2 != nil {
		res.violate("C08", "decgate-"+name+"-rejects-valid", "", i, "the validating %s decoder rejected what the plain decoder + Validate() accept: %v; input %x", name, e2, head(b, 512))
	} else if s2 := structObs(c2); s1 != s2 {
		res.violate("C08", "decgate-"+name+"-differs", "struct", i, "validating and plain %s decode hand back differently populated claims-sets:\n plain:      %s\n validating: %s", name, s1, s2)
	} else if a, bb := fullObs(c1), fullObs(c2); a != bb {
		res.violate("C08", "decgate-"+name+"-differs", "", i, "validating and plain %s decode disagree:\n %s\n %s", name, a, bb)
	}
	return
}

// sameObject: do two interface values hold the same pointer?
func sameObject(a, b any) (same bool) {
	defer func() { _ = recover() }()
	va, vb := reflect.ValueOf(a), reflect.ValueOf(b)
	if va.Kind() != reflect.Ptr || vb.Kind() != reflect.Ptr || va.IsNil() || vb.IsNil() {
		return false
	}
	return va.Pointer() == vb.Pointer()
}

// allPairGates runs the three decoder pairs on one delivered byte string.
func allPairGates(res *Result, i int, b []byte) (gateInvalid, gateValid int) {
	// every library map range executed by the decoders below uses a different
	// iteration order from the previous one (seam T1)
	simrt.OrderFn = obsOrderFn
	defer func() { simrt.OrderFn = nil }()
	coseD := func(x []byte) (psatoken.IClaims, error) {
		e, err := psatoken.DecodeEvidenceFromCOSE(x)
		if err != nil || e == nil {
			return nil, err
		}
		return e.Claims, nil
	}
	coseDV := func(x []byte) (psatoken.IClaims, error) {
		e, err := psatoken.DecodeAndValidateEvidenceFromCOSE(x)
		if err != nil || e == nil {
			return nil, err
		}
		return e.Claims, nil
	}
	a1, b1 := pairGate(res, i, "cose", b, coseD, coseDV)
	a2, b2 := pairGate(res, i, "cbor", b, psatoken.DecodeClaimsFromCBOR, psatoken.DecodeAndValidateClaimsFromCBOR)
	a3, b3 := pairGate(res, i, "json", b, psatoken.DecodeClaimsFromJSON, psatoken.DecodeAndValidateClaimsFromJSON)
	// the deprecated names are decode-and-validate variants too
	a4, b4 := pairGate(res, i, "json-deprecated-names", b, psatoken.DecodeUnvalidatedJSONClaims, psatoken.DecodeJSONClaims) //nolint:staticcheck
	return a1 + a2 + a3 + a4, b1 + b2 + b3 + b4
}

// decodeGates evaluates C08's decode-and-validate twins on one byte string.
func decodeGates(res *Result, i int, tok []byte) (gateInvalid, gateValid int) {
	cp := func() []byte { return append([]byte{}, tok...) }
	d, de := func() (ev *psatoken.Evidence, err error) {
		defer func() {
			if r := recover(); r != nil {
				// panics are C05's to judge
				res.Probes["gate_panic_skipped"]++
				ev, err = nil, fmt.Errorf("panic: %v", r)
			}
		}()
		return psatoken.DecodeEvidenceFromCOSE(cp())
	}()
	dv, dve := func() (ev *psatoken.Evidence, err error) {
		defer func() {
			if r := recover(); r != nil {
				err = fmt.Errorf("panic: %v", r)
			}
		}()
		return psatoken.DecodeAndValidateEvidenceFromCOSE(cp())
	}()
	res.Evals++
	res.logf("%d decgate de=%s dve=%s", i, okOrErr(de), okOrErr(dve))
	if de != nil {
		if dve == nil {
			res.violate("C08", "decgate-cose-validating-accepts-undecodable", "", i, "DecodeAndValidateEvidenceFromCOSE succeeded where DecodeEvidenceFromCOSE fails (%v)", de)
		}
		return
	}
	sD := structObs(d.Claims)
	vv := safely(func() string { return okOrErr(d.Claims.Validate()) })
	if vv != "ok" {
		gateInvalid++
		if dve == nil {
			res.violate("C08", "decgate-cose-accepts-invalid", "", i, "DecodeAndValidateEvidenceFromCOSE accepted claims whose Validate() fails")
		} else if dv != nil {
			res.violate("C08", "decgate-cose-returns-on-failure", "", i, "DecodeAndValidateEvidenceFromCOSE failed but returned an Evidence")
		}
	} else {
		gateValid++
		if dve != nil {
			res.violate("C08", "decgate-cose-rejects-valid", "", i, "DecodeAndValidateEvidenceFromCOSE rejected what DecodeEvidenceFromCOSE + Validate accept: %v", dve)
		} else if dv == d || sameObject(d.Claims, dv.Claims) {
			res.violate("C08", "decgate-cose-differs", "same-object", i, "DecodeAndValidateEvidenceFromCOSE handed back the very object an earlier DecodeEvidenceFromCOSE of the same bytes returned")
		} else if sV := structObs(dv.Claims); sD != sV {
			res.violate("C08", "decgate-cose-differs", "struct", i, "validating and plain COSE decode hand back differently populated claims-sets:\n plain:      %s\n validating: %s", sD, sV)
		} else if a, b := fullObs(d.Claims), fullObs(dv.Claims); a != b {
			res.violate("C08", "decgate-cose-differs", "", i, "validating and plain COSE decode disagree:\n %s\n %s", a, b)
		}
	}
	// bare claims, CBOR
	if p, ok := splitSign1(tok); ok && p.PayloadIsBstr {
		payload := append([]byte{}, p.Payload...)
		c1, e1 := psatoken.DecodeClaimsFromCBOR(append([]byte{}, payload...))
		c2, e2 := func() (c psatoken.IClaims, err error) {
			defer func() {
				if r := recover(); r != nil {
					err = fmt.Errorf("panic: %v", r)
				}
			}()
			return psatoken.DecodeAndValidateClaimsFromCBOR(append([]byte{}, payload...))
		}()
		res.Evals++
		if e1 != nil {
			if e2 == nil {
				res.violate("C08", "decgate-cbor-validating-accepts-undecodable", "", i, "DecodeAndValidateClaimsFromCBOR succeeded where DecodeClaimsFromCBOR fails")
			}
		} else {
			v1 := safely(func() string { return okOrErr(c1.Validate()) })
			if v1 != "ok" {
				gateInvalid++
				if e2 == nil {
					res.violate("C08", "decgate-cbor-accepts-invalid", "", i, "DecodeAndValidateClaimsFromCBOR accepted claims whose Validate() fails")
				} else if c2 != nil {
					res.violate("C08", "decgate-cbor-returns-on-failure", "", i, "DecodeAndValidateClaimsFromCBOR failed but returned claims")
				}
			} else {
				gateValid++
				if e2 != nil {
					res.violate("C08", "decgate-cbor-rejects-valid", "", i, "DecodeAndValidateClaimsFromCBOR rejected valid claims: %v", e2)
				} else if a, b := fullObs(c1), fullObs(c2); a != b {
					res.violate("C08", "decgate-cbor-differs", "", i, "validating and plain CBOR decode disagree")
				}
				// JSON twins on the re-encoded claims
				if js, jerr := psatoken.EncodeClaimsToJSON(c1); jerr == nil {
					j1, je1 := psatoken.DecodeClaimsFromJSON(append([]byte{}, js...))
					j2, je2 := psatoken.DecodeAndValidateClaimsFromJSON(append([]byte{}, js...))
					res.Evals++
					if je1 != nil {
						if je2 == nil {
							res.violate("C08", "decgate-json-validating-accepts-undecodable", "", i, "DecodeAndValidateClaimsFromJSON succeeded where DecodeClaimsFromJSON fails")
						}
					} else {
						jv := safely(func() string { return okOrErr(j1.Validate()) })
						if jv != "ok" {
							if je2 == nil {
								res.violate("C08", "decgate-json-accepts-invalid", "", i, "DecodeAndValidateClaimsFromJSON accepted claims whose Validate() fails")
							}
						} else if je2 != nil {
							res.violate("C08", "decgate-json-rejects-valid", "", i, "DecodeAndValidateClaimsFromJSON rejected valid claims: %v", je2)
						} else if a, b := fullObs(j1), fullObs(j2); a != b {
							res.violate("C08", "decgate-json-differs", "", i, "validating and plain JSON decode disagree")
						}
					}
				}
			}
		}
	}
	return
}

func makeEvidToken(cfg *EvidCfg, live []psatoken.IClaims, td TokenDesc, led ledger) (out []byte) {
	defer func() {
		if r := recover(); r != nil {
			out = []byte{0xd2}
		}
	}()
	if td.Kind == "garbage" {
		return append([]byte{}, td.X...)
	}
	if td.Signer < 0 || td.Signer >= len(cfg.Signers) {
		return nil
	}
	spec := cfg.Signers[td.Signer]
	var payload []byte
	if td.Kind == "rawpayload" {
		payload = append([]byte{}, td.X...)
	} else {
		if td.Claims < 0 || td.Claims >= len(live) || live[td.Claims] == nil {
			return []byte{0xd2}
		}
		saved := codecFault
		codecFault.kind = ""
		b, err := psatoken.EncodeClaimsToCBOR(live[td.Claims])
		codecFault = saved
		if err != nil {
			return []byte{0xd2, 0x84}
		}
		payload = b
	}
	if td.Kind == "tree" {
		// a correctly signed token whose claims tree is damaged at one node (null / wrong type / duplicate ...)
		payload, _ = applyTreeFault(payload, td.A, td.B)
	}
	tok, err := directSign(spec, payload)
	if err != nil {
		return nil
	}
	if p, ok := splitSign1(tok); ok {
		led.add(spec.Key, p.tripleKey())
	}
	p, ok := splitSign1(tok)
	if !ok {
		return tok
	}
	switch td.Kind {
	case "flip-payload":
		n := (p.PayloadEnd - p.PayloadOff) * 8
		bit := p.PayloadOff*8 + td.A%n
		return flipBit(tok, bit)
	case "flip-sig":
		n := (p.SigEnd - p.SigOff) * 8
		return flipBit(tok, p.SigOff*8+td.A%n)
	case "flip-prot":
		n := (p.ProtEnd - p.ProtOff) * 8
		return flipBit(tok, p.ProtOff*8+td.A%n)
	case "trunc":
		return append([]byte{}, tok[:td.A%len(tok)]...)
	}
	return tok
}

func (evidWorld) Simplify(o Op) []Op {
	var out []Op
	if o.F != "" {
		c := o
		c.F = ""
		c.B = 0
		out = append(out, c)
	}
	if o.A > 0 {
		c := o
		c.A = 0
		out = append(out, c)
	}
	if o.B > 1 {
		c := o
		c.B = 1
		out = append(out, c)
	}
	return out
}

// fieldMutate edits exported fields of the built-in claims structs in place.
func fieldMutate(c psatoken.IClaims, code int) {
	defer func() { _ = recover() }()
	var p1 *psatoken.P1Claims
	var p2 *psatoken.P2Claims
	switch x := c.(type) {
	case *psatoken.P1Claims:
		p1 = x
	case *XP1Claims:
		p1 = &x.P1Claims
	case *psatoken.P2Claims:
		p2 = x
	case *XP2Claims:
		p2 = &x.P2Claims
	case *XWClaims:
		p2 = &x.P2Claims
	case *XKClaims:
		p2 = &x.P2Claims
	}
	one := uint(1)
	switch code {
	case 5:
		if p1 != nil {
			p1.NoSwMeasurements = &one // next to whatever components are there
		} else if p2 != nil {
			p2.VSI = sp("")
		}
	case 6:
		if p1 != nil {
			p1.ClientID = nil
		} else if p2 != nil {
			p2.ClientID = nil
		}
	case 7:
		if p1 != nil {
			p1.Profile = sp("SOMETHING_ELSE")
		} else if p2 != nil {
			p2.Profile = eatProfileOf("http://example.com/other")
		}
	case 8:
		if p1 != nil {
			p1.SwComponents = nil
			p1.NoSwMeasurements = nil
		} else if p2 != nil {
			p2.SwComponents = nil
		}
	case 9:
		b := []byte{1, 2, 3}
		if p1 != nil {
			p1.Nonce = &b
		} else if p2 != nil {
			p2.BootSeed = &b
		}
	case 10, 11:
		// a component edited in place through the pointer GetSoftwareComponents hands out
		// (the container stores the caller's pointers)
		scs, err := c.GetSoftwareComponents()
		if err != nil || len(scs) == 0 {
			return
		}
		var sc *psatoken.SwComponent
		switch x := scs[len(scs)-1].(type) {
		case *psatoken.SwComponent:
			sc = x
		case *XSwComponent:
			sc = &x.SwComponent
		case *XSwExt:
			sc = &x.SwComponent
		}
		if sc == nil {
			return
		}
		if code == 10 {
			sc.SignerID = nil
		} else {
			b := []byte{1, 2, 3}
			sc.MeasurementValue = &b
		}
	case 12:
		// one more (valid) component through the container's own Add
		var cont psatoken.ISwComponents
		if p1 != nil {
			cont = p1.SwComponents
		} else if p2 != nil {
			cont = p2.SwComponents
		}
		if cont == nil || cont.IsEmpty() {
			return
		}
		extra := buildSwComponent(SwDesc{MVal: hp(bytes.Repeat([]byte{0xad}, 32)), Signer: hp(bytes.Repeat([]byte{0xde}, 32)), Version: sp("added-in-place")})
		if err := cont.Add(extra); err != nil {
			_ = cont.Add(&XSwExt{SwComponent: *extra})
		}
	case 14:
		// a second entry in the nonce claim (EAT's array form), through the exported field
		if p2 != nil && p2.Nonce != nil {
			_ = p2.Nonce.Add(bytes.Repeat([]byte{0x5a}, 32))
		}
	case 13:
		scs, err := c.GetSoftwareComponents()
		if err != nil || len(scs) == 0 {
			return
		}
		_ = scs[0].SetVersion("1.2.3-amended")
		_ = scs[0].SetMeasurementDesc("amended in place")
	}
}

// forkAndSet makes a struct copy of c (next := *c) and calls the scalar and
// byte-string setters on the copy. The component container is shared by such a
// copy, so the component setter is left alone.
func forkAndSet(c psatoken.IClaims, salt int) {
	defer func() { _ = recover() }()
	v := reflect.ValueOf(c)
	if v.Kind() != reflect.Ptr || v.IsNil() {
		return
	}
	n := reflect.New(v.Elem().Type())
	n.Elem().Set(v.Elem())
	f, ok := n.Interface().(psatoken.IClaims)
	if !ok {
		return
	}
	r := NewRng(uint64(salt) + 0xf0)
	_ = f.SetNonce(r.Bytes(32))
	_ = f.SetImplID(r.Bytes(32))
	_ = f.SetBootSeed(r.Bytes(32))
	_ = f.SetInstID(append([]byte{0x01}, r.Bytes(32)...))
	_ = f.SetClientID(int32(salt) + 7)
	_ = f.SetSecurityLifeCycle(uint16(0x3000 + salt%256))
	_ = f.SetVSI(fmt.Sprintf("forked-%d", salt))
	_ = f.SetCertificationReference("1234567890123-54321")
}

// decodeLike decodes payload into a fresh claims object of the same dynamic
// type (and canonical profile) as like; nil when that is not possible.
func decodeLike(like psatoken.IClaims, payload []byte) (out psatoken.IClaims) {
	defer func() {
		if r := recover(); r != nil {
			out = nil
		}
	}()
	var fresh psatoken.IClaims
	switch x := like.(type) {
	case *psatoken.P1Claims:
		fresh = &psatoken.P1Claims{CanonicalProfile: x.CanonicalProfile}
	case *psatoken.P2Claims:
		fresh = &psatoken.P2Claims{CanonicalProfile: x.CanonicalProfile}
	case *XP1Claims:
		fresh = &XP1Claims{P1Claims: psatoken.P1Claims{CanonicalProfile: x.CanonicalProfile}}
	case *XP2Claims:
		fresh = &XP2Claims{P2Claims: psatoken.P2Claims{CanonicalProfile: x.CanonicalProfile}}
	case *XWClaims:
		fresh = &XWClaims{P2Claims: psatoken.P2Claims{CanonicalProfile: x.CanonicalProfile}}
	case *XKClaims:
		fresh = &XKClaims{P2Claims: psatoken.P2Claims{CanonicalProfile: x.CanonicalProfile}}
	default:
		return nil
	}
	u, ok := fresh.(interface{ UnmarshalCBOR([]byte) error })
	if !ok {
		return nil
	}
	if err := u.UnmarshalCBOR(append([]byte{}, payload...)); err != nil {
		return nil
	}
	return fresh
}

// wireComponentCount reads, with the harness's own CBOR walker, how many
// entries the software-components array of a claims map carries on the wire
// (key -75006 in profile 1, 2399 in profile 2, as the PSA token specifications
// define them). ok=false when the payload is not a definite map with such an array.
func wireComponentCount(payload []byte) (int, bool) {
	h, err := readHead(payload, 0)
	if err != nil || h.Major != 5 || h.Info == 31 {
		return 0, false
	}
	p := h.HLen
	for i := uint64(0); i < h.Arg; i++ {
		kh, err := readHead(payload, p)
		if err != nil {
			return 0, false
		}
		kEnd, err := walkItem(payload, p, 0, nil)
		if err != nil {
			return 0, false
		}
		vEnd, err := walkItem(payload, kEnd, 0, nil)
		if err != nil {
			return 0, false
		}
		if (kh.Major == 1 && kh.Arg == 75005) || (kh.Major == 0 && kh.Arg == 2399) {
			vh, err := readHead(payload, kEnd)
			if err != nil || vh.Major != 4 || vh.Info == 31 {
				return 0, false
			}
			return int(vh.Arg), true
		}
		p = vEnd
	}
	return 0, false
}

// componentCountAgrees: when the getter succeeds it must expose as many
// components as the wire carries (a getter that fails makes no statement).
func componentCountAgrees(c psatoken.IClaims, wire int) bool {
	ok := true
	func() {
		defer func() { _ = recover() }()
		scs, err := c.GetSoftwareComponents()
		if err == nil && len(scs) != wire && !(wire == 0 && len(scs) == 0) {
			ok = false
		}
	}()
	return ok
}

// topLevelKeys lists the keys of a definite-length CBOR map as hex strings
// mapped to whether their value is something other than null.
func topLevelKeys(b []byte) (map[string]bool, bool) {
	h, err := readHead(b, 0)
	if err != nil || h.Major != 5 || h.Info == 31 {
		return nil, false
	}
	out := map[string]bool{}
	p := h.HLen
	for i := uint64(0); i < h.Arg; i++ {
		kEnd, err := walkItem(b, p, 0, nil)
		if err != nil {
			return nil, false
		}
		vEnd, err := walkItem(b, kEnd, 0, nil)
		if err != nil {
			return nil, false
		}
		out[fmt.Sprintf("%x", b[p:kEnd])] = !(vEnd-kEnd == 1 && b[kEnd] == 0xf6)
		p = vEnd
	}
	return out, p == len(b)
}

// claimsNotInPayload: the attached claims, encoded, must not carry a (non-null)
// top-level claim that the covered payload lacks - "equal to the decoding of
// the payload" leaves no room for a claim that appears from nowhere. (The other
// direction is not demanded: a decoder may ignore keys it does not know.)
func claimsNotInPayload(c psatoken.IClaims, payload []byte) (extra string) {
	defer func() {
		if r := recover(); r != nil {
			extra = ""
		}
	}()
	pk, ok := topLevelKeys(payload)
	if !ok {
		return ""
	}
	enc, err := psatoken.EncodeClaimsToCBOR(c)
	if err != nil {
		return ""
	}
	ek, ok := topLevelKeys(enc)
	if !ok {
		return ""
	}
	for k, nonNull := range ek {
		if nonNull {
			if _, has := pk[k]; !has {
				return k
			}
		}
	}
	return ""
}

func passesDecodeGate(ser string, b []byte) (ok bool) {
	defer func() {
		if r := recover(); r != nil {
			ok = false
		}
	}()
	var err error
	if ser == "cbor" {
		_, err = psatoken.DecodeAndValidateClaimsFromCBOR(append([]byte{}, b...))
	} else {
		_, err = psatoken.DecodeAndValidateClaimsFromJSON(append([]byte{}, b...))
	}
	return err == nil
}

func profileRegistered(c psatoken.IClaims) (ok bool) {
	defer func() {
		if r := recover(); r != nil {
			ok = false
		}
	}()
	pn, err := c.GetProfile()
	if err != nil {
		return false
	}
	_, nerr := psatoken.NewClaims(pn)
	return nerr == nil
}

// sameImplementationDecodes: the plain decoder of that serialisation hands the
// bytes to the same claims implementation as c's (CBOR and JSON dispatch on
// different claims for profile-1 derived profiles, so a re-encoding may
// legitimately be judged by another profile's rules).
func sameImplementationDecodes(ser string, b []byte, c psatoken.IClaims) (ok bool) {
	defer func() {
		if r := recover(); r != nil {
			ok = false
		}
	}()
	var d psatoken.IClaims
	var err error
	if ser == "cbor" {
		d, err = psatoken.DecodeClaimsFromCBOR(append([]byte{}, b...))
	} else {
		d, err = psatoken.DecodeClaimsFromJSON(append([]byte{}, b...))
	}
	return err == nil && d != nil && fmt.Sprintf("%T", d) == fmt.Sprintf("%T", c)
}
