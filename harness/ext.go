package main

import (
	"encoding/json"
	"errors"
	"fmt"
	"time"

	cbor "github.com/fxamacker/cbor/v2"
	"github.com/veraison/eat"
	psatoken "github.com/veraison/psatoken"
	"github.com/veraison/psatoken/encoding"
)

// Extension profiles defined by the simulation (seam S7): thin structs over the
// real embedding-aware codec, built exactly like the library's documented
// example, plus a switch that lets the simulator make the user codec fail on
// its k-th call.

var (
	xem cbor.EncMode
	xdm cbor.DecMode
)

func init() {
	var err error
	xem, err = cbor.EncOptions{IndefLength: cbor.IndefLengthForbidden, TimeTag: cbor.EncTagRequired}.EncMode()
	if err != nil {
		panic(err)
	}
	xdm, err = cbor.DecOptions{IndefLength: cbor.IndefLengthForbidden}.DecMode()
	if err != nil {
		panic(err)
	}
}

// codec fault plan (single-threaded worlds only; W-CONC never arms it)
var codecFault struct {
	kind      string
	countdown int
	fired     int
}

var errInjectedCodec = errors.New("injected user-codec failure")

func armCodec(kind string, nth int) {
	codecFault.kind = kind
	codecFault.countdown = nth
	codecFault.fired = 0
}

func disarmCodec() int {
	f := codecFault.fired
	codecFault.kind = ""
	codecFault.countdown = 0
	codecFault.fired = 0
	return f
}

func codecHit(kind string) bool {
	if codecFault.kind != kind {
		return false
	}
	if codecFault.countdown > 0 {
		codecFault.countdown--
		if codecFault.countdown == 0 {
			codecFault.fired++
			return true
		}
	}
	return false
}

var codecFaults = []string{"codec.marshal_err", "codec.unmarshal_err", "codec.validate_err", "codec.swmarshal_err"}

// ---- extension over profile 2

type XP2Claims struct {
	psatoken.P2Claims
	Extra *int64 `cbor:"-75100,keyasint,omitempty" json:"sim-extra,omitempty"`
}

func (o *XP2Claims) GetExtra() (int64, error) {
	if o.Extra == nil {
		return 0, psatoken.ErrMissingOptional
	}
	if *o.Extra < 0 {
		return 0, errors.New("negative extra")
	}
	return *o.Extra, nil
}

func (o *XP2Claims) Validate() error {
	if codecHit("codec.validate_err") {
		return errInjectedCodec
	}
	if err := psatoken.ValidateClaims(o); err != nil {
		return err
	}
	return psatoken.FilterError(o.GetExtra())
}

func (o XP2Claims) MarshalCBOR() ([]byte, error) { //nolint:gocritic
	if codecHit("codec.marshal_err") {
		return nil, errInjectedCodec
	}
	return encoding.SerializeStructToCBOR(xem, &o)
}

func (o *XP2Claims) UnmarshalCBOR(data []byte) error {
	if codecHit("codec.unmarshal_err") {
		return errInjectedCodec
	}
	return encoding.PopulateStructFromCBOR(xdm, data, o)
}

func (o XP2Claims) MarshalJSON() ([]byte, error) { //nolint:gocritic
	if codecHit("codec.marshal_err") {
		return nil, errInjectedCodec
	}
	return encoding.SerializeStructToJSON(&o)
}

func (o *XP2Claims) UnmarshalJSON(data []byte) error {
	if codecHit("codec.unmarshal_err") {
		return errInjectedCodec
	}
	return encoding.PopulateStructFromJSON(data, o)
}

func newXP2(name string) psatoken.IClaims {
	p := eat.Profile{}
	if err := p.Set(name); err != nil {
		panic(err)
	}
	return &XP2Claims{P2Claims: psatoken.P2Claims{
		Profile:          &p,
		SwComponents:     &psatoken.SwComponents[*psatoken.SwComponent]{},
		CanonicalProfile: name,
	}}
}

type XP2Profile struct{ N string }

func (p XP2Profile) GetName() string             { return p.N }
func (p XP2Profile) GetClaims() psatoken.IClaims { return newXP2(p.N) }

// ---- extension over profile 1

type XP1Claims struct {
	psatoken.P1Claims
	Extra *int64 `cbor:"-75100,keyasint,omitempty" json:"sim-extra,omitempty"`
}

func (o *XP1Claims) GetExtra() (int64, error) {
	if o.Extra == nil {
		return 0, psatoken.ErrMissingOptional
	}
	if *o.Extra < 0 {
		return 0, errors.New("negative extra")
	}
	return *o.Extra, nil
}

func (o *XP1Claims) Validate() error {
	if codecHit("codec.validate_err") {
		return errInjectedCodec
	}
	if err := psatoken.ValidateClaims(o); err != nil {
		return err
	}
	return psatoken.FilterError(o.GetExtra())
}

func (o XP1Claims) MarshalCBOR() ([]byte, error) { //nolint:gocritic
	if codecHit("codec.marshal_err") {
		return nil, errInjectedCodec
	}
	return encoding.SerializeStructToCBOR(xem, &o)
}

func (o *XP1Claims) UnmarshalCBOR(data []byte) error {
	if codecHit("codec.unmarshal_err") {
		return errInjectedCodec
	}
	return encoding.PopulateStructFromCBOR(xdm, data, o)
}

func (o XP1Claims) MarshalJSON() ([]byte, error) { //nolint:gocritic
	if codecHit("codec.marshal_err") {
		return nil, errInjectedCodec
	}
	return encoding.SerializeStructToJSON(&o)
}

func (o *XP1Claims) UnmarshalJSON(data []byte) error {
	if codecHit("codec.unmarshal_err") {
		return errInjectedCodec
	}
	return encoding.PopulateStructFromJSON(data, o)
}

func newXP1(name string) psatoken.IClaims {
	n := name
	return &XP1Claims{P1Claims: psatoken.P1Claims{
		Profile:          &n,
		SwComponents:     &psatoken.SwComponents[*psatoken.SwComponent]{},
		CanonicalProfile: name,
	}}
}

type XP1Profile struct{ N string }

func (p XP1Profile) GetName() string             { return p.N }
func (p XP1Profile) GetClaims() psatoken.IClaims { return newXP1(p.N) }

var simProfilesRegistered bool

// registerSimProfiles adds the two standard simulation profiles to the
// library's register (worlds other than W-REG).
func registerSimProfiles() {
	if simProfilesRegistered {
		return
	}
	if err := psatoken.RegisterProfile(XP2Profile{xp2Name}); err != nil {
		panic(err)
	}
	if err := psatoken.RegisterProfile(XP1Profile{xp1Name}); err != nil {
		panic(err)
	}
	if err := psatoken.RegisterProfile(XWProfile{}); err != nil {
		panic(err)
	}
	if err := psatoken.RegisterProfile(XCProfile{}); err != nil {
		panic(err)
	}
	if err := psatoken.RegisterProfile(XKProfile{}); err != nil {
		panic(err)
	}
	simProfilesRegistered = true
}

// ---- struct shapes for the embedding-aware populate helpers (C05 / C06)

type FlatShape struct {
	A    *int64  `cbor:"1,keyasint" json:"a"`
	B    *string `cbor:"2,keyasint,omitempty" json:"b,omitempty"`
	C    *[]byte `cbor:"3,keyasint,omitempty" json:"c,omitempty"`
	Skip string  `cbor:"-" json:"-"`
}

type EmbShape struct {
	FlatShape
	D *uint16 `cbor:"4,keyasint,omitempty" json:"d,omitempty"`
}

type Emb2Shape struct {
	EmbShape
	E *bool `cbor:"5,keyasint,omitempty" json:"e,omitempty"`
}

type IShape interface{ IsShape() }

func (*FlatShape) IsShape() {}

type IfaceShape struct {
	IShape
	F *int `cbor:"6,keyasint,omitempty" json:"f,omitempty"`
}

// PlainShape has mandatory fields of plain (non-pointer) kinds.
type PlainShape struct {
	Seq   uint64          `cbor:"1,keyasint" json:"sequence"`
	Name  string          `cbor:"2,keyasint" json:"name"`
	Flag  bool            `cbor:"3,keyasint" json:"flag"`
	Arr   [2]int          `cbor:"4,keyasint" json:"arr"`
	Inner struct{ X int } `cbor:"5,keyasint" json:"inner"`
	Opt   int             `cbor:"6,keyasint,omitempty" json:"opt,omitempty"`
}

type EmbPlainShape struct {
	PlainShape
	G *string `cbor:"7,keyasint,omitempty" json:"g,omitempty"`
}

// DupShape repeats, in the outer struct, a key its embedded struct already
// uses: the embedding-aware encoders must refuse it with an error.
type DupShape struct {
	FlatShape
	A2 *int64 `cbor:"1,keyasint,omitempty" json:"a,omitempty"`
}

// BadKeyShape has a field whose CBOR key is not an integer and a field with a
// CBOR tag but no JSON tag.
type BadKeyShape struct {
	X *int64 `cbor:"abc,keyasint,omitempty" json:"x,omitempty"`
	Y *int64 `cbor:"2,keyasint,omitempty"`
	Z *int64 `json:"z,omitempty"`
}

// RecShape nests a value of its own type (EAT-style sub-module), each level
// decoding through the embedding-aware helper again.
type RecShape struct {
	A   *int64    `cbor:"1,keyasint,omitempty" json:"a,omitempty"`
	Sub *RecShape `cbor:"9,keyasint,omitempty" json:"sub,omitempty"`
}

func (o RecShape) MarshalCBOR() ([]byte, error) { //nolint:gocritic
	return encoding.SerializeStructToCBOR(xem, &o)
}
func (o *RecShape) UnmarshalCBOR(data []byte) error {
	return encoding.PopulateStructFromCBOR(xdm, data, o)
}
func (o RecShape) MarshalJSON() ([]byte, error) { //nolint:gocritic
	return encoding.SerializeStructToJSON(&o)
}
func (o *RecShape) UnmarshalJSON(data []byte) error {
	return encoding.PopulateStructFromJSON(data, o)
}

// XStatClaims: a user claims type that keeps a statistic about itself. It is not
// internally synchronised and need not be: W-CONC only ever uses it as a private
// object of one task.
type XStatClaims struct {
	psatoken.P2Claims
	nValidate int
}

func (o *XStatClaims) Validate() error {
	o.nValidate++
	return psatoken.ValidateClaims(o)
}
func (o XStatClaims) MarshalCBOR() ([]byte, error) { //nolint:gocritic
	return encoding.SerializeStructToCBOR(xem, &o)
}
func (o XStatClaims) MarshalJSON() ([]byte, error) { //nolint:gocritic
	return encoding.SerializeStructToJSON(&o)
}

// XIfaceClaims embeds the IClaims interface (holding whatever NewClaims returned).
type XIfaceClaims struct {
	psatoken.IClaims
	Extra *int64 `cbor:"-75100,keyasint,omitempty" json:"sim-extra,omitempty"`
}

// PtrEmbShape embeds a struct BY POINTER (nil or not).
type PtrEmbShape struct {
	*FlatShape
	T *int64 `cbor:"7,keyasint,omitempty" json:"t,omitempty"`
}

const nShapes = 12

func newShape(kind int) any {
	switch kind % nShapes {
	case 5:
		return &PlainShape{}
	case 6:
		return &EmbPlainShape{}
	case 7:
		return &DupShape{}
	case 8:
		return &BadKeyShape{}
	case 9:
		return &RecShape{}
	case 10:
		return &PtrEmbShape{} // nil embedded pointer
	case 11:
		return &PtrEmbShape{FlatShape: &FlatShape{}}
	}
	switch kind % nShapes {
	case 0:
		return &FlatShape{}
	case 1:
		return &EmbShape{}
	case 2:
		return &Emb2Shape{}
	case 3:
		return &IfaceShape{IShape: &FlatShape{}}
	}
	return &IfaceShape{} // embedded interface holding nothing
}

func filledShape(kind int, a int64, b string, c []byte) any {
	f := FlatShape{A: &a}
	if b != "" {
		f.B = &b
	}
	if c != nil {
		f.C = &c
	}
	d := uint16(a)
	e := a%2 == 0
	g := int(a)
	switch kind % nShapes {
	case 5:
		return &PlainShape{Seq: uint64(a), Name: b, Flag: e, Arr: [2]int{1, 2}}
	case 6:
		return &EmbPlainShape{PlainShape: PlainShape{Seq: uint64(a), Name: b, Arr: [2]int{3, 4}}, G: &b}
	case 7:
		if a%2 == 0 {
			return &DupShape{FlatShape: f} // the repeated key is absent (omitempty): encodes
		}
		return &DupShape{FlatShape: f, A2: &a}
	case 8:
		if a%2 == 0 {
			return &BadKeyShape{Y: &a, Z: &a}
		}
		return &BadKeyShape{X: &a, Y: &a}
	case 10:
		return &PtrEmbShape{T: &a}
	case 11:
		return &PtrEmbShape{FlatShape: &f, T: &a}
	case 9:
		// 1..30 levels (the CBOR decoder's own nesting limit is 32)
		depth := 1 + int(uint64(a)%30)
		top := &RecShape{A: &a}
		cur := top
		for i := 1; i < depth; i++ {
			v := int64(i)
			cur.Sub = &RecShape{A: &v}
			cur = cur.Sub
		}
		return top
	}
	switch kind % nShapes {
	case 0:
		return &f
	case 1:
		return &EmbShape{FlatShape: f, D: &d}
	case 2:
		return &Emb2Shape{EmbShape: EmbShape{FlatShape: f, D: &d}, E: &e}
	case 3:
		return &IfaceShape{IShape: &f, F: &g}
	}
	return &IfaceShape{F: &g}
}

// ---- more extension profile kinds for W-REG

// XOwnClaims: extension over profile 2 whose profile is (also) announced in a
// JSON member of its own, found by field name by GetProfileJSONTag.
type XOwnClaims struct {
	psatoken.P2Claims
	Profile *string `json:"own-profile"`
	// the profile field, found by its name, is not the last field of the struct
	Stamp *int64 `json:"own-stamp,omitempty"`
}

func (o *XOwnClaims) Validate() error {
	if err := psatoken.ValidateClaims(o); err != nil {
		return err
	}
	if o.Profile == nil || *o.Profile != o.CanonicalProfile {
		return psatoken.ErrWrongProfile
	}
	return nil
}

func (o XOwnClaims) MarshalCBOR() ([]byte, error) { //nolint:gocritic
	return encoding.SerializeStructToCBOR(xem, &o)
}

func (o *XOwnClaims) UnmarshalCBOR(data []byte) error {
	if err := encoding.PopulateStructFromCBOR(xdm, data, o); err != nil {
		return err
	}
	// the own member has no CBOR form: it mirrors the EAT profile claim
	if p, err := o.P2Claims.Profile.Get(); err == nil {
		o.Profile = &p
	}
	return nil
}

func (o XOwnClaims) MarshalJSON() ([]byte, error) { //nolint:gocritic
	return encoding.SerializeStructToJSON(&o)
}

func (o *XOwnClaims) UnmarshalJSON(data []byte) error {
	return encoding.PopulateStructFromJSON(data, o)
}

type XOwnProfile struct{ N string }

func (p XOwnProfile) GetName() string { return p.N }
func (p XOwnProfile) GetClaims() psatoken.IClaims {
	ep := eat.Profile{}
	if err := ep.Set(p.N); err != nil {
		panic(err)
	}
	n := p.N
	return &XOwnClaims{P2Claims: psatoken.P2Claims{
		Profile:          &ep,
		SwComponents:     &psatoken.SwComponents[*psatoken.SwComponent]{},
		CanonicalProfile: p.N,
	}, Profile: &n}
}

// NoProfClaims has no identifiable profile field at all (its only field is an
// embedded interface holding nothing): registration must fail.
type NoProfClaims struct{ psatoken.IClaims }

type NoProfProfile struct{ N string }

func (p NoProfProfile) GetName() string             { return p.N }
func (p NoProfProfile) GetClaims() psatoken.IClaims { return &NoProfClaims{} }

// NoTagClaims has a field called Profile, but without a json tag.
type NoTagClaims struct {
	psatoken.IClaims
	Profile *string
}

type NoTagProfile struct{ N string }

func (p NoTagProfile) GetName() string             { return p.N }
func (p NoTagProfile) GetClaims() psatoken.IClaims { return &NoTagClaims{} }

// XOptClaims: like XOwnClaims, but the profile member's json tag carries an
// option, as json tags may.
type XOptClaims struct {
	psatoken.P2Claims
	Profile *string `json:"opt-profile,omitempty"`
	Stamp   *int64  `json:"opt-stamp,omitempty"`
	Note    string  `json:"opt-note,omitempty"`
}

func (o *XOptClaims) Validate() error {
	if err := psatoken.ValidateClaims(o); err != nil {
		return err
	}
	if o.Profile == nil || *o.Profile != o.CanonicalProfile {
		return psatoken.ErrWrongProfile
	}
	return nil
}

func (o XOptClaims) MarshalCBOR() ([]byte, error) { //nolint:gocritic
	return encoding.SerializeStructToCBOR(xem, &o)
}

func (o *XOptClaims) UnmarshalCBOR(data []byte) error {
	if err := encoding.PopulateStructFromCBOR(xdm, data, o); err != nil {
		return err
	}
	if p, err := o.P2Claims.Profile.Get(); err == nil {
		o.Profile = &p
	}
	return nil
}

func (o XOptClaims) MarshalJSON() ([]byte, error) { //nolint:gocritic
	return encoding.SerializeStructToJSON(&o)
}

func (o *XOptClaims) UnmarshalJSON(data []byte) error {
	return encoding.PopulateStructFromJSON(data, o)
}

type XOptProfile struct{ N string }

func (p XOptProfile) GetName() string { return p.N }
func (p XOptProfile) GetClaims() psatoken.IClaims {
	ep := eat.Profile{}
	if err := ep.Set(p.N); err != nil {
		panic(err)
	}
	n := p.N
	return &XOptClaims{P2Claims: psatoken.P2Claims{
		Profile:          &ep,
		SwComponents:     &psatoken.SwComponents[*psatoken.SwComponent]{},
		CanonicalProfile: p.N,
	}, Profile: &n}
}

// ---- two more kinds for W-REG

// XTwoClaims embeds two structs; the one that carries the profile field is
// not the first.
type VendorExtras struct {
	Vendor *string `cbor:"-75200,keyasint,omitempty" json:"vendor,omitempty"`
}

type XTwoClaims struct {
	VendorExtras
	psatoken.P2Claims
}

func (o *XTwoClaims) Validate() error { return psatoken.ValidateClaims(o) }
func (o XTwoClaims) MarshalCBOR() ([]byte, error) { //nolint:gocritic
	return encoding.SerializeStructToCBOR(xem, &o)
}
func (o *XTwoClaims) UnmarshalCBOR(data []byte) error {
	return encoding.PopulateStructFromCBOR(xdm, data, o)
}
func (o XTwoClaims) MarshalJSON() ([]byte, error) { //nolint:gocritic
	return encoding.SerializeStructToJSON(&o)
}
func (o *XTwoClaims) UnmarshalJSON(data []byte) error {
	return encoding.PopulateStructFromJSON(data, o)
}

type XTwoProfile struct{ N string }

func (p XTwoProfile) GetName() string { return p.N }
func (p XTwoProfile) GetClaims() psatoken.IClaims {
	ep := eat.Profile{}
	if err := ep.Set(p.N); err != nil {
		panic(err)
	}
	return &XTwoClaims{P2Claims: psatoken.P2Claims{
		Profile:          &ep,
		SwComponents:     &psatoken.SwComponents[*psatoken.SwComponent]{},
		CanonicalProfile: p.N,
	}}
}

// XStrClaims: a profile-1 shaped claims-set that announces its profile as a
// plain text string under the EAT profile key 265 (any string, not
// necessarily a URI or an OID).
type XStrClaims struct {
	psatoken.P1Claims
	EatProfile *string `cbor:"265,keyasint" json:"str-profile"`
}

func (o *XStrClaims) GetProfile() (string, error) {
	if o.EatProfile == nil {
		return "", psatoken.ErrMandatoryClaimMissing
	}
	if *o.EatProfile != o.CanonicalProfile {
		return "", psatoken.ErrWrongProfile
	}
	return *o.EatProfile, nil
}

func (o *XStrClaims) Validate() error { return psatoken.ValidateClaims(o) }
func (o XStrClaims) MarshalCBOR() ([]byte, error) { //nolint:gocritic
	return encoding.SerializeStructToCBOR(xem, &o)
}
func (o *XStrClaims) UnmarshalCBOR(data []byte) error {
	o.EatProfile = nil
	return encoding.PopulateStructFromCBOR(xdm, data, o)
}
func (o XStrClaims) MarshalJSON() ([]byte, error) { //nolint:gocritic
	return encoding.SerializeStructToJSON(&o)
}
func (o *XStrClaims) UnmarshalJSON(data []byte) error {
	o.EatProfile = nil
	return encoding.PopulateStructFromJSON(data, o)
}

type XStrProfile struct{ N string }

func (p XStrProfile) GetName() string { return p.N }
func (p XStrProfile) GetClaims() psatoken.IClaims {
	n := p.N
	return &XStrClaims{P1Claims: psatoken.P1Claims{
		SwComponents:     &psatoken.SwComponents[*psatoken.SwComponent]{},
		CanonicalProfile: p.N,
	}, EatProfile: &n}
}

// ---- kinds added after the third wave of seeded changes

// XP1NProfile: extension over profile 1 whose factory leaves the (optional)
// profile claim unset, relying on the canonical profile.
type XP1NProfile struct{ N string }

func (p XP1NProfile) GetName() string { return p.N }
func (p XP1NProfile) GetClaims() psatoken.IClaims {
	return &XP1Claims{P1Claims: psatoken.P1Claims{
		SwComponents:     &psatoken.SwComponents[*psatoken.SwComponent]{},
		CanonicalProfile: p.N,
	}}
}

type funcProfile struct {
	name string
	mk   func() psatoken.IClaims
}

func (p funcProfile) GetName() string             { return p.name }
func (p funcProfile) GetClaims() psatoken.IClaims { return p.mk() }

func eatProfileOf(name string) *eat.Profile {
	ep := eat.Profile{}
	if err := ep.Set(name); err != nil {
		panic(err)
	}
	return &ep
}

// Two function-local claims types with the SAME type name ("main.claims") but
// different JSON profile members, relying on the embedded P2Claims for every
// method (no codecs of their own).
func localProfileA(name string) psatoken.IProfile {
	type claims struct {
		psatoken.P2Claims
		Profile *string `json:"la-profile"`
	}
	return funcProfile{name, func() psatoken.IClaims {
		n := name
		return &claims{P2Claims: psatoken.P2Claims{Profile: eatProfileOf(name),
			SwComponents: &psatoken.SwComponents[*psatoken.SwComponent]{}, CanonicalProfile: name}, Profile: &n}
	}}
}

func localProfileB(name string) psatoken.IProfile {
	type claims struct {
		psatoken.P2Claims
		Profile *string `json:"lb-profile"`
	}
	return funcProfile{name, func() psatoken.IClaims {
		n := name
		return &claims{P2Claims: psatoken.P2Claims{Profile: eatProfileOf(name),
			SwComponents: &psatoken.SwComponents[*psatoken.SwComponent]{}, CanonicalProfile: name}, Profile: &n}
	}}
}

// ---- wide extension over profile 2: up to 20 optional extra claims, so that
// the number of top-level claims crosses the CBOR header boundary at 23/24

// (upper-case letters in the host: a legal URI, and a different name from its lower-case spelling)
const xwName = "http://Sim.Example/psa/xw"

type XWClaims struct {
	psatoken.P2Claims
	XWBulk
	Stamp *time.Time `cbor:"-75399,keyasint,omitempty" json:"w-stamp,omitempty"`
	// the same options spelt in other legal ways
	Alt1 *int64 `cbor:"-75398,omitempty,keyasint" json:"w-alt1,omitempty"`
	Alt2 *int64 `cbor:"-75397,omitempty" json:"w-alt2,omitempty"`
	W00   *int64     `cbor:"-75300,keyasint,omitempty" json:"w-00,omitempty"`
	W01   *int64     `cbor:"-75301,keyasint,omitempty" json:"w-01,omitempty"`
	W02   *int64     `cbor:"-75302,keyasint,omitempty" json:"w-02,omitempty"`
	W03   *int64     `cbor:"-75303,keyasint,omitempty" json:"w-03,omitempty"`
	W04   *int64     `cbor:"-75304,keyasint,omitempty" json:"w-04,omitempty"`
	W05   *int64     `cbor:"-75305,keyasint,omitempty" json:"w-05,omitempty"`
	W06   *int64     `cbor:"-75306,keyasint,omitempty" json:"w-06,omitempty"`
	W07   *int64     `cbor:"-75307,keyasint,omitempty" json:"w-07,omitempty"`
	W08   *int64     `cbor:"-75308,keyasint,omitempty" json:"w-08,omitempty"`
	W09   *int64     `cbor:"-75309,keyasint,omitempty" json:"w-09,omitempty"`
	W10   *int64     `cbor:"-75310,keyasint,omitempty" json:"w-10,omitempty"`
	W11   *int64     `cbor:"-75311,keyasint,omitempty" json:"w-11,omitempty"`
	W12   *int64     `cbor:"-75312,keyasint,omitempty" json:"w-12,omitempty"`
	W13   *int64     `cbor:"-75313,keyasint,omitempty" json:"w-13,omitempty"`
	W14   *int64     `cbor:"-75314,keyasint,omitempty" json:"w-14,omitempty"`
	W15   *int64     `cbor:"-75315,keyasint,omitempty" json:"w-15,omitempty"`
	W16   *int64     `cbor:"-75316,keyasint,omitempty" json:"w-16,omitempty"`
	W17   *int64     `cbor:"-75317,keyasint,omitempty" json:"w-17,omitempty"`
	W18   *int64     `cbor:"-75318,keyasint,omitempty" json:"w-18,omitempty"`
	W19   *int64     `cbor:"-75319,keyasint,omitempty" json:"w-19,omitempty"`
}

// GetStamp renders the optional time claim (CBOR: tag 1, as the library's own
// encoding mode writes time values).
func (o *XWClaims) GetStamp() string {
	if o.Stamp == nil {
		return "-"
	}
	return o.Stamp.UTC().Format(time.RFC3339)
}

func (o *XWClaims) wide() []**int64 {
	w := []**int64{&o.W00, &o.W01, &o.W02, &o.W03, &o.W04, &o.W05, &o.W06, &o.W07, &o.W08, &o.W09, &o.W10, &o.W11, &o.W12, &o.W13, &o.W14, &o.W15, &o.W16, &o.W17, &o.W18, &o.W19}
	w = append(w, o.XWBulk.bulk()...)
	return append(w, &o.Alt1, &o.Alt2)
}

// GetWide renders the extra claims that are present.
func (o *XWClaims) GetWide() string {
	s := "stamp=" + o.GetStamp() + ","
	for i, p := range o.wide() {
		if *p != nil {
			s += fmt.Sprintf("%d=%d,", i, **p)
		}
	}
	return s
}

func (o *XWClaims) Validate() error {
	if codecHit("codec.validate_err") {
		return errInjectedCodec
	}
	return psatoken.ValidateClaims(o)
}

func (o XWClaims) MarshalCBOR() ([]byte, error) { //nolint:gocritic
	if codecHit("codec.marshal_err") {
		return nil, errInjectedCodec
	}
	return encoding.SerializeStructToCBOR(xem, &o)
}

func (o *XWClaims) UnmarshalCBOR(data []byte) error {
	if codecHit("codec.unmarshal_err") {
		return errInjectedCodec
	}
	return encoding.PopulateStructFromCBOR(xdm, data, o)
}

func (o XWClaims) MarshalJSON() ([]byte, error) { //nolint:gocritic
	if codecHit("codec.marshal_err") {
		return nil, errInjectedCodec
	}
	return encoding.SerializeStructToJSON(&o)
}

func (o *XWClaims) UnmarshalJSON(data []byte) error {
	if codecHit("codec.unmarshal_err") {
		return errInjectedCodec
	}
	return encoding.PopulateStructFromJSON(data, o)
}

type XWProfile struct{}

func (XWProfile) GetName() string { return xwName }
func (XWProfile) GetClaims() psatoken.IClaims {
	return &XWClaims{P2Claims: psatoken.P2Claims{
		Profile:          eatProfileOf(xwName),
		SwComponents:     &psatoken.SwComponents[*psatoken.SwComponent]{},
		CanonicalProfile: xwName,
	}}
}

// ---- "kitchen sink" extension over profile 2: optional claims of plain
// (non-pointer) kinds, whose absence is their zero value, a mandatory plain
// claim, a slice, a nested struct

const xkName = "http://sim.example/psa/xk"

type XKInner struct {
	N *int64 `cbor:"1,keyasint,omitempty" json:"n,omitempty"`
	S string `cbor:"2,keyasint,omitempty" json:"s,omitempty"`
}

// KEpoch: a claim declared as an EMBEDDED field of a named scalar type.
type KEpoch uint64

// XKGroup: an optional group of claims embedded BY POINTER. The embedding-aware
// helpers merge by-value embedded structs only, so the group is never on the
// wire; the claims families leave it nil (and it must stay nil).
type XKGroup struct {
	G1 *int64 `cbor:"-75520,keyasint,omitempty" json:"k-g1,omitempty"`
}

type XKClaims struct {
	psatoken.P2Claims
	*XKGroup
	KEpoch `cbor:"-75507,keyasint,omitempty" json:"k-epoch,omitempty"`
	Name  string   `cbor:"-75500,keyasint,omitempty" json:"k-name,omitempty"`
	Count uint32   `cbor:"-75501,keyasint,omitempty" json:"k-count,omitempty"`
	Flag  bool     `cbor:"-75502,keyasint,omitempty" json:"k-flag,omitempty"`
	Blob  []byte   `cbor:"-75503,keyasint,omitempty" json:"k-blob,omitempty"`
	List  []string `cbor:"-75504,keyasint,omitempty" json:"k-list,omitempty"`
	Inner *XKInner `cbor:"-75505,keyasint,omitempty" json:"k-inner,omitempty"`
	Must  int64    `cbor:"-75506,keyasint" json:"k-must"`
	// an opaque claim kept as the bytes it was encoded in
	Raw cbor.RawMessage `cbor:"-75508,keyasint,omitempty" json:"k-raw,omitempty"`
	// no omitempty: a nil list is on the wire as null
	Feat []string `cbor:"-75509,keyasint" json:"k-feat"`
}

// GetWide renders the additional claims, nil and empty told apart.
func (o *XKClaims) GetWide() string {
	s := fmt.Sprintf("name=%q count=%d flag=%v must=%d epoch=%d group=%v", o.Name, o.Count, o.Flag, o.Must, uint64(o.KEpoch), o.XKGroup != nil)
	if o.Blob == nil {
		s += " blob=nil"
	} else {
		s += fmt.Sprintf(" blob=%x", o.Blob)
	}
	if o.List == nil {
		s += " list=nil"
	} else {
		s += fmt.Sprintf(" list=%q", o.List)
	}
	s += fmt.Sprintf(" raw=%x feat=%q", []byte(o.Raw), o.Feat)
	if o.Inner == nil {
		s += " inner=nil"
	} else if o.Inner.N == nil {
		s += fmt.Sprintf(" inner={-,%q}", o.Inner.S)
	} else {
		s += fmt.Sprintf(" inner={%d,%q}", *o.Inner.N, o.Inner.S)
	}
	return s
}

func (o *XKClaims) Validate() error {
	if codecHit("codec.validate_err") {
		return errInjectedCodec
	}
	return psatoken.ValidateClaims(o)
}

func (o XKClaims) MarshalCBOR() ([]byte, error) { //nolint:gocritic
	if codecHit("codec.marshal_err") {
		return nil, errInjectedCodec
	}
	return encoding.SerializeStructToCBOR(xem, &o)
}

func (o *XKClaims) UnmarshalCBOR(data []byte) error {
	if codecHit("codec.unmarshal_err") {
		return errInjectedCodec
	}
	return encoding.PopulateStructFromCBOR(xdm, data, o)
}

func (o XKClaims) MarshalJSON() ([]byte, error) { //nolint:gocritic
	if codecHit("codec.marshal_err") {
		return nil, errInjectedCodec
	}
	return encoding.SerializeStructToJSON(&o)
}

func (o *XKClaims) UnmarshalJSON(data []byte) error {
	if codecHit("codec.unmarshal_err") {
		return errInjectedCodec
	}
	return encoding.PopulateStructFromJSON(data, o)
}

type XKProfile struct{}

func (XKProfile) GetName() string { return xkName }
func (XKProfile) GetClaims() psatoken.IClaims {
	return &XKClaims{P2Claims: psatoken.P2Claims{
		Profile:          eatProfileOf(xkName),
		SwComponents:     &psatoken.SwComponents[*psatoken.SwComponent]{},
		CanonicalProfile: xkName,
	}}
}

// ---- a derived profile that re-uses P2Claims itself (no claim of its own, no
// codec of its own) and plugs a component type of its own into the container:
// the stock component plus one more field, default struct-tag codecs

const xcName = "http://sim.example/psa/xc"

type XSwExt struct {
	psatoken.SwComponent
	Extra *string `cbor:"7,keyasint,omitempty" json:"x-extra,omitempty"`
}

// GetXExtra renders the additional field.
func (c *XSwExt) GetXExtra() string {
	if c == nil || c.Extra == nil {
		return "-"
	}
	return fmt.Sprintf("%q", *c.Extra)
}

type XCProfile struct{}

func (XCProfile) GetName() string { return xcName }
func (XCProfile) GetClaims() psatoken.IClaims {
	return &psatoken.P2Claims{
		Profile:          eatProfileOf(xcName),
		SwComponents:     &psatoken.SwComponents[*XSwExt]{},
		CanonicalProfile: xcName,
	}
}

// ---- a user software-component type whose encoder can be made to fail

type XSwComponent struct {
	psatoken.SwComponent
}

func (c XSwComponent) MarshalCBOR() ([]byte, error) { //nolint:gocritic
	if codecHit("codec.swmarshal_err") {
		return nil, errInjectedCodec
	}
	return xem.Marshal(c.SwComponent)
}

func (c XSwComponent) MarshalJSON() ([]byte, error) { //nolint:gocritic
	if codecHit("codec.swmarshal_err") {
		return nil, errInjectedCodec
	}
	return json.Marshal(c.SwComponent)
}

// XPtrClaims embeds the base claims type BY POINTER: the embedding-aware
// helpers only merge by-value embedded structs, so this type has no
// identifiable profile field and its registration must fail.
type XPtrClaims struct {
	*psatoken.P2Claims
}

type XPtrProfile struct{ N string }

func (p XPtrProfile) GetName() string { return p.N }
func (p XPtrProfile) GetClaims() psatoken.IClaims {
	return &XPtrClaims{P2Claims: &psatoken.P2Claims{
		Profile:          eatProfileOf("http://sim.example/psa/ptr"),
		SwComponents:     &psatoken.SwComponents[*psatoken.SwComponent]{},
		CanonicalProfile: p.N,
	}}
}

// ---- kinds whose own claim sits at a CBOR key that merely STARTS with the
// digits of a profile key (2650, -750001)

// XNearClaims is an ordinary extension over profile 2 with such a claim.
type XNearClaims struct {
	psatoken.P2Claims
	Batch *string `cbor:"-750001,keyasint,omitempty" json:"vendor-batch,omitempty"`
}

func (o *XNearClaims) Validate() error { return psatoken.ValidateClaims(o) }
func (o XNearClaims) MarshalCBOR() ([]byte, error) { //nolint:gocritic
	return encoding.SerializeStructToCBOR(xem, &o)
}
func (o *XNearClaims) UnmarshalCBOR(data []byte) error {
	return encoding.PopulateStructFromCBOR(xdm, data, o)
}
func (o XNearClaims) MarshalJSON() ([]byte, error) { //nolint:gocritic
	return encoding.SerializeStructToJSON(&o)
}
func (o *XNearClaims) UnmarshalJSON(data []byte) error {
	return encoding.PopulateStructFromJSON(data, o)
}

type XNearProfile struct{ N string }

func (p XNearProfile) GetName() string { return p.N }
func (p XNearProfile) GetClaims() psatoken.IClaims {
	return &XNearClaims{P2Claims: psatoken.P2Claims{Profile: eatProfileOf(p.N),
		SwComponents: &psatoken.SwComponents[*psatoken.SwComponent]{}, CanonicalProfile: p.N}}
}

// Near265Claims has no profile field at all, only a vendor claim at key 2650.
type Near265Claims struct {
	psatoken.IClaims
	Vendor *string `cbor:"2650,keyasint" json:"vendor"`
}

type Near265Profile struct{ N string }

func (p Near265Profile) GetName() string             { return p.N }
func (p Near265Profile) GetClaims() psatoken.IClaims { return &Near265Claims{} }
